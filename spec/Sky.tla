-------------------------------- MODULE Sky --------------------------------
(***************************************************************************)
(* The discrete sky: pair counting, patch metadata, patch linkage and the  *)
(* redshift-bin membership rule on a ring of M slots (a great circle,      *)
(* distance between slots = min(|a-b|, M-|a-b|) steps of delta = 2pi/M).   *)
(*                                                                         *)
(* Stages of the library and their abstract counterparts:                  *)
(*   assign_patch_centers / split_into_patches   -> Nearest, Members       *)
(*   Metadata.compute (count, sum of weights,                              *)
(*       given centre, radius = max distance)    -> NumRecords, SumW, Radius*)
(*   build_trees (np.digitize, closed side,                                *)
(*       dummy trees for empty bins)             -> BinOf                  *)
(*   get_max_angle + PatchLinkage.from_catalogs  -> ThetaMax, Linked       *)
(*   AngularTree.count on (lo, hi]               -> InScale                *)
(*   process_patch_pair / count_pairs            -> Count, SumW1, SumW2    *)
(*   autocorrelation: upper triangle, every                                *)
(*       unordered pair once                     -> CountAuto              *)
(*                                                                         *)
(* All angles are measured in HALF-steps (delta/2): a scale is the         *)
(* interval (Lo, Hi] with Lo, Hi odd, realised distances are even, so no   *)
(* realised distance ever coincides with a threshold and floating point    *)
(* rounding in the implementation cannot flip a membership.                *)
(*                                                                         *)
(* Redshift cells for NB bins with edges e_0 < ... < e_NB:                 *)
(*   0 below e_0 | 1 on e_0 | 2 inside bin 1 | 3 on e_1 | ... |            *)
(*   2NB inside bin NB | 2NB+1 on e_NB | 2NB+2 above                       *)
(*                                                                         *)
(* Deviations (code as found):                                             *)
(*  "RadiiFromLargestCatalog"   patch radii of ONE catalog (the one whose  *)
(*       tuple of per-patch record counts is largest) are used for the     *)
(*       pruning of all catalogs                                           *)
(*  "MaxAngleFloored"           the pruning angle is the scale at          *)
(*       max(zmin, 0.05): smaller than the scale at a lower bin centre     *)
(*       (constant ThetaMaxImpl, computed by the real get_max_angle)       *)
(***************************************************************************)
EXTENDS Integers, Sequences, FiniteSets, TLC

CONSTANTS M,            \* slots on the ring
          Slots,        \* slots an object may occupy
          Centres,      \* sequence of centre slots (patch i <-> Centres[i])
          NB,           \* number of redshift bins
          Closed,       \* "right" | "left"
          NS,           \* number of scales
          Lo, Hi,       \* Lo[s][b], Hi[s][b]: odd half-steps, scale s at the centre of bin b
          ThetaMaxImpl, \* half-steps, pruning angle as the implementation computes it
          NRef, NUnk,   \* objects in the binned (reference) and the unbinned (unknown) catalog
          ZCells,       \* redshift cells an object may take
          Weights,      \* weights an object may take
          MaxD,         \* largest separation (steps) reported per distance in the expected record
          PrintEvery,   \* print the expected record of every PrintEvery-th scenario (1 = all)
          Deviations

VARIABLES ref,          \* sequence of [s |-> slot, z |-> cell, w |-> weight]
          unk           \* sequence of [s |-> slot, w |-> weight]

vars == <<ref, unk>>

NC == Len(Centres)
Patches == 1..NC
Bins == 1..NB
Dev(d) == d \in Deviations

Abs(x) == IF x < 0 THEN -x ELSE x
DistM(a, b) == LET d == Abs(a - b) IN IF d > M - d THEN M - d ELSE d
Max2(a, b) == IF a > b THEN a ELSE b
RECURSIVE SumF(_, _)
SumF(f, S) == IF S = {} THEN 0 ELSE LET x == CHOOSE x \in S : TRUE IN f[x] + SumF(f, S \ {x})
MaxOf(S) == IF S = {} THEN 0 ELSE CHOOSE x \in S : \A y \in S : y <= x

---------------------------------------------------------------------------
(* everything below is parameterised by the centre list C and the catalogs,
   so that the symmetry invariants can evaluate it on transformed inputs *)

HasNearest(C, s) == \E i \in 1..Len(C) : \A j \in 1..Len(C) : j # i => DistM(s, C[i]) < DistM(s, C[j])
Nearest(C, s) == CHOOSE i \in 1..Len(C) : \A j \in 1..Len(C) : j # i => DistM(s, C[i]) < DistM(s, C[j])

Members(C, cat, i) == { k \in 1..Len(cat) : Nearest(C, cat[k].s) = i }
NumRecords(C, cat, i) == Cardinality(Members(C, cat, i))
SumW(C, cat, i) == SumF([k \in 1..Len(cat) |-> cat[k].w], Members(C, cat, i))
Radius(C, cat, i) == MaxOf({ DistM(cat[k].s, C[i]) : k \in Members(C, cat, i) })

(* membership rule: cell -> bin (0 = in no bin) *)
BinOf(c) ==
    IF c % 2 = 0 THEN (IF c >= 2 /\ c <= 2 * NB THEN c \div 2 ELSE 0)
    ELSE IF Closed = "right" THEN (IF c >= 3 THEN (c - 1) \div 2 ELSE 0)
    ELSE (IF c <= 2 * NB - 1 THEN (c + 1) \div 2 ELSE 0)

InScale(s, b, a, c) == Lo[s][b] < 2 * DistM(a, c) /\ 2 * DistM(a, c) <= Hi[s][b]

(* weight-product sum over pairs (binned object of patch i, unbinned object of patch j) *)
Count(C, R, U, s, b, i, j) ==
    LET P == { <<k, l>> \in (1..Len(R)) \X (1..Len(U)) :
                   /\ Nearest(C, R[k].s) = i /\ Nearest(C, U[l].s) = j
                   /\ BinOf(R[k].z) = b /\ InScale(s, b, R[k].s, U[l].s) }
    IN SumF([p \in P |-> R[p[1]].w * U[p[2]].w], P)

(* autocorrelation of the binned catalog: both objects in bin b; every unordered
   pair once; cell (i, j) with i <= j *)
CountAuto(C, R, s, b, i, j) ==
    LET P == { <<k, l>> \in (1..Len(R)) \X (1..Len(R)) :
                   /\ k < l
                   /\ {Nearest(C, R[k].s), Nearest(C, R[l].s)} = {i, j}
                   /\ BinOf(R[k].z) = b /\ BinOf(R[l].z) = b
                   /\ InScale(s, b, R[k].s, R[l].s) }
    IN SumF([p \in P |-> R[p[1]].w * R[p[2]].w], P)

(* the same sum restricted to pairs exactly d steps apart (for separation weighting: the
   driver multiplies by the power-law factor of the fine separation bin, floats stay outside) *)
CountD(C, R, U, b, i, j, d) ==
    LET P == { <<k, l>> \in (1..Len(R)) \X (1..Len(U)) :
                   /\ Nearest(C, R[k].s) = i /\ Nearest(C, U[l].s) = j
                   /\ BinOf(R[k].z) = b /\ DistM(R[k].s, U[l].s) = d }
    IN SumF([p \in P |-> R[p[1]].w * U[p[2]].w], P)

SumW1(C, R, b, i) == SumF([k \in 1..Len(R) |-> R[k].w], { k \in Members(C, R, i) : BinOf(R[k].z) = b })

(* pruning *)
ThetaMaxIdeal == MaxOf({ Hi[s][b] : s \in 1..NS, b \in Bins })
ThetaMax == IF Dev("MaxAngleFloored") THEN ThetaMaxImpl ELSE ThetaMaxIdeal

(* lexicographic comparison of the per-patch record counts (sorted(..., key=get_num_records)) *)
RECURSIVE LexGreater(_, _, _, _)
LexGreater(C, A, B, i) ==
    IF i > Len(C) THEN FALSE
    ELSE IF NumRecords(C, A, i) # NumRecords(C, B, i) THEN NumRecords(C, A, i) > NumRecords(C, B, i)
    ELSE LexGreater(C, A, B, i + 1)

PruneRadius(C, R, U, i) ==
    IF Dev("RadiiFromLargestCatalog")
      THEN (IF LexGreater(C, U, R, 1) THEN Radius(C, U, i) ELSE Radius(C, R, i))
      ELSE Max2(Radius(C, R, i), Radius(C, U, i))

Linked(C, R, U, i, j) ==
    2 * DistM(C[i], C[j]) < 2 * (PruneRadius(C, R, U, i) + PruneRadius(C, R, U, j)) + ThetaMax

(* a scenario is CRITICAL for the pruning when a patch pair that holds in-scale pairs is linked
   only because the radii of BOTH catalogs are taken into account *)
LinkedWithRadiiOf(C, cat, i, j) ==
    2 * DistM(C[i], C[j]) < 2 * (Radius(C, cat, i) + Radius(C, cat, j)) + ThetaMaxIdeal
Critical(C, R, U) ==
    \E i \in 1..Len(C), j \in 1..Len(C) :
        /\ i # j
        /\ \E s \in 1..NS, b \in Bins : Count(C, R, U, s, b, i, j) > 0
        /\ (~LinkedWithRadiiOf(C, R, i, j) \/ ~LinkedWithRadiiOf(C, U, i, j))

Measured(C, R, U, s, b, i, j) == IF Linked(C, R, U, i, j) THEN Count(C, R, U, s, b, i, j) ELSE 0

---------------------------------------------------------------------------
RefObj == [s : Slots, z : ZCells, w : Weights]
UnkObj == [s : Slots, w : Weights]
Key1(o) == (o.s * 100 + o.z) * 10 + o.w
Key2(o) == o.s * 10 + o.w

(* admissible catalogs: one representative per object order (irrelevant, C13), no object
   equidistant from two centres (the tie-break is not fixed by any property), no empty
   patch (rejected at creation, C09).  All constraints are per catalog, so each set is
   filtered once and Init is their product. *)
RefSeqs == { r \in [1..NRef -> RefObj] :
               /\ \A k \in 1..(NRef - 1) : Key1(r[k]) <= Key1(r[k + 1])
               /\ \A k \in 1..NRef : HasNearest(Centres, r[k].s)
               /\ \A i \in Patches : NumRecords(Centres, r, i) > 0 }
UnkSeqs == { u \in [1..NUnk -> UnkObj] :
               /\ \A k \in 1..(NUnk - 1) : Key2(u[k]) <= Key2(u[k + 1])
               /\ \A k \in 1..NUnk : HasNearest(Centres, u[k].s)
               /\ \A i \in Patches : NumRecords(Centres, u, i) > 0 }

Init == ref \in RefSeqs /\ unk \in UnkSeqs

Next == UNCHANGED vars
Spec == Init /\ [][Next]_vars

---------------------------------------------------------------------------
(* C01: the pruning of distant patch pairs loses no pair *)
PruningLosesNothing ==
    \A s \in 1..NS, b \in Bins, i \in Patches, j \in Patches :
        ~Linked(Centres, ref, unk, i, j) => Count(Centres, ref, unk, s, b, i, j) = 0
LinkSymmetric == \A i \in Patches, j \in Patches : Linked(Centres, ref, unk, i, j) = Linked(Centres, ref, unk, j, i)
SelfLinked == \A i \in Patches : Linked(Centres, ref, unk, i, i)

(* C01/C10: counts partition: every in-scale pair is counted in exactly one cell; objects outside the binning nowhere *)
ByDistanceAgrees ==      \* the per-distance decomposition adds up to the cell counts
    \A s \in 1..NS, b \in Bins, i \in Patches, j \in Patches :
        Count(Centres, ref, unk, s, b, i, j)
          = SumF([d \in 1..MaxD |-> IF Lo[s][b] < 2 * d /\ 2 * d <= Hi[s][b] THEN CountD(Centres, ref, unk, b, i, j, d) ELSE 0], 1..MaxD)
TotalsAgree ==
    \A s \in 1..NS :
        SumF([x \in Bins \X Patches \X Patches |-> Count(Centres, ref, unk, s, x[1], x[2], x[3])], Bins \X Patches \X Patches)
          = LET P == { <<k, l>> \in (1..NRef) \X (1..NUnk) : BinOf(ref[k].z) # 0 /\ InScale(s, BinOf(ref[k].z), ref[k].s, unk[l].s) }
            IN SumF([p \in P |-> ref[p[1]].w * unk[p[2]].w], P)
(* C12: metadata describe the patch *)
MetaDescribesPatch ==
    \A i \in Patches :
        /\ \A k \in Members(Centres, ref, i) : DistM(ref[k].s, Centres[i]) <= Radius(Centres, ref, i)
        /\ SumF([x \in Patches |-> NumRecords(Centres, ref, x)], Patches) = NRef

(* C13 on the model: ring shift, reflection, weight scale, catalog split *)
ShiftC(k) == [i \in 1..NC |-> (Centres[i] + k) % M]
ShiftR(k) == [x \in 1..NRef |-> [ref[x] EXCEPT !.s = (@ + k) % M]]
ShiftU(k) == [x \in 1..NUnk |-> [unk[x] EXCEPT !.s = (@ + k) % M]]
FlipC == [i \in 1..NC |-> (M - Centres[i]) % M]
FlipR == [x \in 1..NRef |-> [ref[x] EXCEPT !.s = (M - @) % M]]
FlipU == [x \in 1..NUnk |-> [unk[x] EXCEPT !.s = (M - @) % M]]
ScaleU(c) == [x \in 1..NUnk |-> [unk[x] EXCEPT !.w = c * @]]
Cells == (1..NS) \X Bins \X Patches \X Patches
RotationInvariant ==
    \A k \in {1, M \div 4, M \div 2} : \A x \in Cells :
        Measured(ShiftC(k), ShiftR(k), ShiftU(k), x[1], x[2], x[3], x[4]) = Measured(Centres, ref, unk, x[1], x[2], x[3], x[4])
ReflectionInvariant ==
    \A x \in Cells : Measured(FlipC, FlipR, FlipU, x[1], x[2], x[3], x[4]) = Measured(Centres, ref, unk, x[1], x[2], x[3], x[4])
WeightScaling ==
    \A x \in Cells : Count(Centres, ref, ScaleU(3), x[1], x[2], x[3], x[4]) = 3 * Count(Centres, ref, unk, x[1], x[2], x[3], x[4])
SplitAdditive ==      \* splitting the unbinned catalog after its first object
    NUnk >= 2 => \A x \in Cells :
        Count(Centres, ref, SubSeq(unk, 1, 1), x[1], x[2], x[3], x[4]) + Count(Centres, ref, SubSeq(unk, 2, NUnk), x[1], x[2], x[3], x[4])
          = Count(Centres, ref, unk, x[1], x[2], x[3], x[4])

---------------------------------------------------------------------------
(* expected results of one scenario, printed for the replay driver *)
Expected ==
    [ ref |-> ref, unk |-> unk,
      assign1 |-> [k \in 1..NRef |-> Nearest(Centres, ref[k].s)],
      assign2 |-> [k \in 1..NUnk |-> Nearest(Centres, unk[k].s)],
      num1 |-> [i \in Patches |-> NumRecords(Centres, ref, i)], num2 |-> [i \in Patches |-> NumRecords(Centres, unk, i)],
      sumw1 |-> [i \in Patches |-> SumW(Centres, ref, i)], sumw2 |-> [i \in Patches |-> SumW(Centres, unk, i)],
      rad1 |-> [i \in Patches |-> Radius(Centres, ref, i)], rad2 |-> [i \in Patches |-> Radius(Centres, unk, i)],
      linked |-> { <<i, j>> \in Patches \X Patches : Linked(Centres, ref, unk, i, j) },
      cross |-> [s \in 1..NS |-> [b \in Bins |-> [i \in Patches |-> [j \in Patches |-> Count(Centres, ref, unk, s, b, i, j)]]]],
      auto |-> [s \in 1..NS |-> [b \in Bins |-> [i \in Patches |-> [j \in Patches |->
                    IF i <= j THEN CountAuto(Centres, ref, s, b, i, j) ELSE 0]]]],
      binw |-> [b \in Bins |-> [i \in Patches |-> SumW1(Centres, ref, b, i)]],
      bydist |-> [b \in Bins |-> [i \in Patches |-> [j \in Patches |-> [d \in 1..MaxD |-> CountD(Centres, ref, unk, b, i, j, d)]]]],
      critical |-> Critical(Centres, ref, unk),
      lost |-> \E s \in 1..NS, b \in Bins, i \in Patches, j \in Patches :
                  ~Linked(Centres, ref, unk, i, j) /\ Count(Centres, ref, unk, s, b, i, j) > 0 ]

(* metadata only (cheap): for the checks that do not need the counts *)
ExpectedMeta ==
    [ ref |-> ref, unk |-> unk,
      assign1 |-> [k \in 1..NRef |-> Nearest(Centres, ref[k].s)],
      assign2 |-> [k \in 1..NUnk |-> Nearest(Centres, unk[k].s)],
      num1 |-> [i \in Patches |-> NumRecords(Centres, ref, i)], num2 |-> [i \in Patches |-> NumRecords(Centres, unk, i)],
      sumw1 |-> [i \in Patches |-> SumW(Centres, ref, i)], sumw2 |-> [i \in Patches |-> SumW(Centres, unk, i)],
      rad1 |-> [i \in Patches |-> Radius(Centres, ref, i)], rad2 |-> [i \in Patches |-> Radius(Centres, unk, i)],
      linked |-> { <<i, j>> \in Patches \X Patches : Linked(Centres, ref, unk, i, j) } ]

ScenarioHash == SumF([k \in 1..NRef |-> Key1(ref[k]) * (k + 1)], 1..NRef) + SumF([k \in 1..NUnk |-> Key2(unk[k]) * (k + 3)], 1..NUnk)
PrintScenario == (ScenarioHash % PrintEvery = 0) => PrintT(<<"scenario", Expected>>)
PrintMeta == (ScenarioHash % PrintEvery = 0) => PrintT(<<"scenario", ExpectedMeta>>)
=============================================================================
