------------------------------ MODULE Persist ------------------------------
(***************************************************************************)
(* C11 - every persisted product reads back equal to what was written.     *)
(*                                                                         *)
(* One module, five product kinds (CONSTANT Kind selects one per TLC run). *)
(* A behaviour = write objs[1] (.. objs[n]) to ONE path, step by step as   *)
(* the code does, then read the path back step by step.  TLC enumerates    *)
(* the structural case space in Init, computes the abstract file after     *)
(* every step and the abstract read-back object; RoundTrip says the        *)
(* read-back equals the last object written.  Floats never enter: values   *)
(* are *classes* (codes); the driver instantiates concrete floats per      *)
(* class and does the float comparison.                                    *)
(*                                                                         *)
(* action            mirrors (src/yaw)                                     *)
(* ----------------  ----------------------------------------------------- *)
(* Kind = "hdf"   CorrFunc through HDF5                                    *)
(*  HdfOpenW         utils/abc.py HdfSerializable.to_file: h5py.File(p,"w")*)
(*  HdfWriteMember   correlation/corrfunc.py CorrFunc.to_hdf loop body ->  *)
(*                   NormalisedCounts.to_hdf -> PatchedCounts.to_hdf       *)
(*                   (sparse: pairs with np.any(counts, axis=0)) +         *)
(*                   PatchedSumWeights.to_hdf (dense)                      *)
(*  HdfCloseW        leaving the with-block                                *)
(*  HdfOpenR         HdfSerializable.from_file: h5py.File(p)               *)
(*  HdfLoadMember    CorrFunc.from_hdf._try_load(name) ->                  *)
(*                   PatchedCounts.from_hdf (zeros + set_patch_pair)       *)
(*  HdfConstruct     CorrFunc.from_dict -> CorrFunc.__init__ checks        *)
(* Kind = "cfg"   Configuration through YAML                               *)
(*  CfgCreate        config/combined.py Configuration.create               *)
(*  CfgModify        Configuration.modify -> BinningConfig.modify          *)
(*  CfgToDict        Configuration.to_dict / BinningConfig.to_dict /       *)
(*                   ScalesConfig.to_dict / cosmology_to_yaml              *)
(*  YamlDump         utils/abc.py YamlSerialisable.to_file (write_yaml)    *)
(*  YamlLoad         YamlSerialisable.from_file (yaml.safe_load)           *)
(*  CfgFromDict      Configuration.from_dict -> BinningConfig.from_dict    *)
(*                   (custom branch | regenerate through create ->         *)
(*                   cosmology.py RedshiftBinningFactory)                  *)
(* Kind = "txt"   CorrData / RedshiftData / HistData through .dat/.smp/.cov*)
(*  TxtWriteDat/Smp/Cov  correlation/corrdata.py write_data, write_samples,*)
(*                   write_covariance (utils/misc format_float_fixed_width)*)
(*  TxtLoadDat       load_header + load_data (np.loadtxt(...).T unpack)    *)
(*  TxtLoadSmp       load_samples                                          *)
(*  TxtConstruct     CorrData.from_files: Binning(...), cls(...)           *)
(* Kind = "meta"  patch Metadata through YAML                              *)
(*  MetaToDict, YamlDump, YamlLoad, MetaFromDict  catalog/patch.py         *)
(* Kind = "cat"   Catalog through its cache directory                      *)
(*  CatWriteData     catalog.py write_patches (+ CatalogWriter.finalize)   *)
(*  CatComputeMeta   load_patches -> Patch(): Metadata.compute + to_file   *)
(*  CatReadIds       Catalog(path): read_patch_ids                         *)
(*  CatLoadPatches   load_patches -> Patch(): Metadata.from_file           *)
(*                                                                         *)
(* Deviations (named departures from the property preserving design; the   *)
(* empty set must pass TLC, each listed one must yield a counterexample):  *)
(*  hdf  SparseBySum          pairs stored iff sum over bins > 0           *)
(*       SkipAllZeroMember    an all-zero optional member is not written   *)
(*       NoTruncate           file opened without truncation (needs 2 wr.) *)
(*       NamesZippedWithPresent  group names paired with the present       *)
(*                            members only: {dd,rd} is stored as dd,dr     *)
(*  cfg  CustomDictHasGenKeys custom-edges dict keeps zmin/zmax/num_bins   *)
(*                            keys -> constructor rejects them (G2)        *)
(*       EndpointsInexact     generated edges[0], edges[-1] differ from    *)
(*                            the zmin, zmax they were generated from for  *)
(*                            comoving/logspace -> regeneration drifts     *)
(*       ModifyDropsCosmology modify regenerates comoving edges with the   *)
(*                            default cosmology (G3)                       *)
(*       ModifyCustomRaises   modify of a custom binning raises (G2b)      *)
(*       ClosedDroppedOnRegenerate, BinningIgnoresCosmology                *)
(*  txt  LoadtxtSqueeze       one-row file loads as 1-dim array (G4)       *)
(*       ClosedTagLost        header does not carry the closed side        *)
(*       ReadsErrorColumn     data taken from the error column             *)
(*  meta SumWeightsAsInt                                                   *)
(*  cat  OpenRecomputesMeta   reopening recomputes the centre from data    *)
(*       IdsFileDropsLast                                                  *)
(***************************************************************************)
EXTENDS Naturals, Integers, Sequences, FiniteSets, TLC

CONSTANTS Kind,        \* "hdf" | "cfg" | "txt" | "meta" | "cat"
          Deviations,
          MaxBins, MaxPatches, MaxSamples,
          Rich,        \* TRUE: full class products (thorough tier)
          Overwrite    \* TRUE: a prior object is written to the path first

VARIABLES objs,     \* the objects written in turn to the same path
          wi,       \* index of the object being written
          pc, idx,  \* control state / loop index of the code
          fs,       \* abstract file (set)
          mem,      \* in-memory intermediate (dict, loaded arrays ...)
          back,     \* the object under reconstruction by the reader
          outcome

vars == <<objs, wi, pc, idx, fs, mem, back, outcome>>

Nil == [nil |-> TRUE]
Obj == objs[wi]
Exp == objs[Len(objs)]

(* end of one write: next object or start reading *)
FinishWrite ==
    IF wi < Len(objs) THEN /\ wi' = wi + 1 /\ pc' = "begin"
                      ELSE /\ wi' = wi /\ pc' = "read"

---------------------------------------------------------------------------
(*                     HDF5: CorrFunc pair counts                          *)

Members   == {"dd", "dr", "rd", "rr"}
MemberSeq == <<"dd", "dr", "rd", "rr">>
MemberSets == { m \in SUBSET Members : "dd" \in m /\ Cardinality(m) >= 2 }

PatternSeq == <<"zero", "dense", "diag", "upper", "lower", "first", "last",
                "cancel", "neg", "nan", "nanmix", "pinf", "ninf">>
NPat == Len(PatternSeq)
PatIndex(p) == CHOOSE k \in 1..NPat : PatternSeq[k] = p

(* value codes: 0 zero, 1 +a(b,i,j), 2 -(value of code 1 in bin 1, same    *)
(* pair), 3 NaN, 4 +inf, 5 negative finite (|.| > a), 6 -inf               *)
Cell(p, nb, np, b, i, j) ==
    CASE p = "zero"   -> 0
      [] p = "dense"  -> 1
      [] p = "diag"   -> IF i = j THEN 1 ELSE 0
      [] p = "upper"  -> IF i < j THEN 1 ELSE 0
      [] p = "lower"  -> IF i > j THEN 1 ELSE 0
      [] p = "first"  -> IF b = 1 /\ i = 1 /\ j = 1 THEN 1 ELSE 0
      [] p = "last"   -> IF b = nb /\ i = np /\ j = np THEN 1 ELSE 0
      [] p = "cancel" -> IF i = 1 /\ j = np
                           THEN (IF b = 1 THEN 1 ELSE IF b = nb THEN 2 ELSE 0)
                           ELSE 0
      [] p = "neg"    -> IF i = np THEN 5 ELSE 0
      [] p = "nan"    -> IF b = 1 /\ i = 1 /\ j = np THEN 3 ELSE 0
      [] p = "nanmix" -> IF b = nb /\ i = np /\ j = 1 THEN 3 ELSE 1
      [] p = "pinf"   -> IF b = nb /\ i = np /\ j = 1 THEN 4 ELSE 0
      [] p = "ninf"   -> IF b = 1 /\ i = 1 /\ j = 1 THEN 6
                           ELSE (IF i = j THEN 1 ELSE 0)

Val(c) == CASE c = 0 -> 0 [] c = 1 -> 1 [] c = 2 -> -1 [] c = 5 -> -2
            [] c = 4 -> 100 [] c = 6 -> -100 [] c = 3 -> 0

MemberPos(k) == CHOOSE n \in 1..4 : MemberSeq[n] = k

(* dd carries o.pat; the other members carry patterns further down the     *)
(* list (o.rot = 0: the same pattern everywhere)                           *)
PatOf(o, k) ==
    PatternSeq[((PatIndex(o.pat) - 1 + (MemberPos(k) - 1) * o.rot) % NPat) + 1]

CellOf(o, k, b, i, j) == Cell(PatOf(o, k), o.nb, o.np, b, i, j)

(* the non-zero content of member k: what equality of counts means *)
NZ(o, k) == { <<b, i, j, CellOf(o, k, b, i, j)>> :
                 <<b, i, j>> \in { t \in (1..o.nb) \X (1..o.np) \X (1..o.np) :
                                     CellOf(o, k, t[1], t[2], t[3]) # 0 } }

SumBins(o, k, i, j) ==
    LET S[b \in 0..o.nb] == IF b = 0 THEN 0 ELSE S[b - 1] + Val(CellOf(o, k, b, i, j))
    IN S[o.nb]
HasNaN(o, k, i, j) == \E b \in 1..o.nb : CellOf(o, k, b, i, j) = 3

(* PatchedCounts.to_hdf: which patch pairs go into the sparse layout *)
StoredPairs(o, k) ==
    IF "SparseBySum" \in Deviations
      THEN { t \in (1..o.np) \X (1..o.np) :
               ~HasNaN(o, k, t[1], t[2]) /\ SumBins(o, k, t[1], t[2]) > 0 }
      ELSE { t \in (1..o.np) \X (1..o.np) :
               \E b \in 1..o.nb : CellOf(o, k, b, t[1], t[2]) # 0 }

AbsentGroup == [present |-> FALSE, auto |-> FALSE, nb |-> 0, np |-> 0,
                pairs |-> {}, data |-> {}, sw |-> "-"]

Group(o, k) ==
    LET ps == StoredPairs(o, k) IN
    [present |-> TRUE, auto |-> o.auto, nb |-> o.nb, np |-> o.np,
     pairs |-> ps,
     data |-> { <<t[1], t[2][1], t[2][2], CellOf(o, k, t[1], t[2][1], t[2][2])>> :
                  t \in (1..o.nb) \X ps },
     sw |-> o.sw]

EmptyFile == [k \in Members |-> AbsentGroup]

Written(o, k) ==
    /\ k \in o.mem
    /\ ~("SkipAllZeroMember" \in Deviations /\ k # "dd" /\ NZ(o, k) = {})

AbsentLoaded == [present |-> FALSE, auto |-> FALSE, nb |-> 0, np |-> 0,
                 nz |-> {}, sw |-> "-"]

(* PatchedCounts.from_hdf: zeros, then set_patch_pair for every stored pair *)
Loaded(g) == [present |-> TRUE, auto |-> g.auto, nb |-> g.nb, np |-> g.np,
              nz |-> { t \in g.data : t[4] # 0 }, sw |-> g.sw]

HdfExpected(o) ==
    [k \in Members |->
        IF k \in o.mem
          THEN [present |-> TRUE, auto |-> o.auto, nb |-> o.nb, np |-> o.np,
                nz |-> NZ(o, k), sw |-> o.sw]
          ELSE AbsentLoaded]

Rots      == IF Rich THEN {0, 1, 5} ELSE {1}
SWClasses == IF Rich THEN {"pos", "zero", "nan", "inf"} ELSE {"pos", "zero"}
Patterns  == { PatternSeq[n] : n \in 1..NPat }

HdfAll ==
    { [auto |-> a, nb |-> b, np |-> p, mem |-> m, pat |-> pt, rot |-> r, sw |-> s] :
        a \in BOOLEAN, b \in 1..MaxBins, p \in 1..MaxPatches, m \in MemberSets,
        pt \in Patterns, r \in Rots, s \in SWClasses }
(* quick tier: the sum-of-weights classes are crossed with one pattern only *)
(* thorough tier: all classes with rot = 1, the other rotations with "pos"   *)
HdfCases == { o \in HdfAll : IF Rich THEN (o.rot = 1 \/ o.sw = "pos")
                                     ELSE (o.sw = "pos" \/ o.pat = "dense") }

HdfPrior ==
    { [auto |-> FALSE, nb |-> MaxBins, np |-> MaxPatches, mem |-> Members,
       pat |-> "dense", rot |-> 0, sw |-> "pos"] }

HdfOpenW ==
    /\ Kind = "hdf" /\ pc = "begin"
    /\ fs' = IF "NoTruncate" \in Deviations THEN fs ELSE EmptyFile
    /\ idx' = 1 /\ pc' = "hdf_write"
    /\ UNCHANGED <<objs, wi, mem, back, outcome>>

(* CorrFunc.to_hdf: "for name, count in zip(names, <members>)": the group   *)
(* name is the idx-th name; the design pairs it with the idx-th *slot*,    *)
(* the deviation with the idx-th *present* member (to_dict().values())     *)
PresentSeq(o) == SelectSeq(MemberSeq, LAMBDA k : k \in o.mem)

HdfWriteMember ==
    /\ Kind = "hdf" /\ pc = "hdf_write" /\ idx <= 4
    /\ LET name == MemberSeq[idx] IN
         IF "NamesZippedWithPresent" \in Deviations
           THEN fs' = IF idx <= Len(PresentSeq(Obj))
                        THEN [fs EXCEPT ![name] = Group(Obj, PresentSeq(Obj)[idx])] ELSE fs
           ELSE fs' = IF Written(Obj, name) THEN [fs EXCEPT ![name] = Group(Obj, name)] ELSE fs
    /\ idx' = idx + 1
    /\ UNCHANGED <<objs, wi, pc, mem, back, outcome>>

HdfCloseW ==
    /\ Kind = "hdf" /\ pc = "hdf_write" /\ idx = 5
    /\ FinishWrite
    /\ UNCHANGED <<objs, idx, fs, mem, back, outcome>>

HdfOpenR ==
    /\ Kind = "hdf" /\ pc = "read"
    /\ idx' = 1 /\ pc' = "hdf_load"
    /\ back' = [k \in Members |-> AbsentLoaded]
    /\ UNCHANGED <<objs, wi, fs, mem, outcome>>

HdfLoadMember ==
    /\ Kind = "hdf" /\ pc = "hdf_load" /\ idx <= 4
    /\ LET k == MemberSeq[idx] IN
         back' = IF fs[k].present THEN [back EXCEPT ![k] = Loaded(fs[k])] ELSE back
    /\ idx' = idx + 1
    /\ UNCHANGED <<objs, wi, pc, fs, mem, outcome>>

HdfConstruct ==
    /\ Kind = "hdf" /\ pc = "hdf_load" /\ idx = 5
    /\ outcome' =
         IF ~back["dd"].present THEN "raises_TypeError"
         ELSE IF \A k \in Members \ {"dd"} : ~back[k].present THEN "raises_EstimatorError"
         ELSE IF \E k \in Members : back[k].present
                    /\ (back[k].nb # back["dd"].nb \/ back[k].np # back["dd"].np)
              THEN "raises_ValueError"
         ELSE "ok"
    /\ pc' = "done"
    /\ UNCHANGED <<objs, wi, idx, fs, mem, back>>

HdfProjection == [k \in Members |-> [present |-> fs[k].present, pairs |-> fs[k].pairs]]

---------------------------------------------------------------------------
(*                     YAML: Configuration                                 *)

Methods == {"linear", "comoving", "logspace", "custom"}
Units   == {"kpc", "Mpc", "rad", "deg", "arcmin", "arcsec", "kpc/h", "Mpc/h"}
ScaleClasses == IF Rich THEN {"single", "multi", "overlap", "intlike"}
                        ELSE {"single", "multi", "overlap"}
ZRs  == IF Rich THEN {1, 2, 3} ELSE {1, 2}
NBs  == IF Rich THEN {1, 2, 3, 30} ELSE {1, 3}
Wts  == {"none", "rweight", "both"}
Deltas == {"rmin", "closed", "cosmology", "num_bins"}
Serialisable(c) == c \in {"default", "named"}

WtFor(s) == CASE s = "single" -> "none" [] s = "multi" -> "rweight"
              [] s = "overlap" -> "both" [] OTHER -> "none"

CfgCreated ==
    { [src |-> "create", delta |-> "-", method |-> m, closed |-> cl, unit |-> u,
       scales |-> s, zr |-> z, nb |-> n, wt |-> w, cosmo |-> c, mw |-> x] :
        m \in Methods, cl \in {"left", "right"}, u \in Units, s \in ScaleClasses,
        z \in ZRs, n \in NBs, w \in Wts, c \in {"default", "named"}, x \in {"none", "set"} }

CfgCases ==
      { o \in CfgCreated :
          IF Rich THEN (o.mw = "none" \/ o.wt = "both") /\ (o.scales # "intlike" \/ o.zr = 1)
                  ELSE (o.wt = WtFor(o.scales) /\ o.mw = (IF o.zr = 1 THEN "none" ELSE "set")) }
    \cup  \* cosmologies that cannot be written: the write must be rejected
      { [src |-> "create", delta |-> "-", method |-> m, closed |-> cl, unit |-> "kpc",
         scales |-> "single", zr |-> 1, nb |-> n, wt |-> "none", cosmo |-> c, mw |-> "none"] :
          m \in Methods, cl \in {"left", "right"}, n \in NBs, c \in {"custom", "unnamed"} }
    \cup  \* objects that are the result of Configuration.modify
      { [src |-> "modify", delta |-> d, method |-> m, closed |-> cl, unit |-> "kpc",
         scales |-> "single", zr |-> 1, nb |-> n, wt |-> "none", cosmo |-> c, mw |-> "none"] :
          d \in Deltas, m \in Methods, cl \in {"left", "right"}, n \in NBs,
          c \in {"default", "named"} }

CfgPrior ==
    { [src |-> "create", delta |-> "-", method |-> "custom", closed |-> "left", unit |-> "deg",
       scales |-> "overlap", zr |-> 2, nb |-> 3, wt |-> "both", cosmo |-> "named", mw |-> "set"] }

GenC(m, c) == IF m = "comoving" THEN c ELSE "-"
Gen(m, lo, hi, n, c) == [m |-> m, lo |-> lo, hi |-> hi, n |-> n, c |-> GenC(m, c)]
Inexact(m) == m \in {"comoving", "logspace"} /\ "EndpointsInexact" \in Deviations
(* float(edges[0]) / float(edges[-1]) of generated edges *)
First(e) == IF Inexact(e.m) THEN <<e.lo[1], e.lo[2] + 1>> ELSE e.lo
Last(e)  == IF Inexact(e.m) THEN <<e.hi[1], e.hi[2] + 1>> ELSE e.hi

Create(p) ==
    [closed |-> p.closed, unit |-> p.unit, scales |-> p.scales, wt |-> p.wt,
     cosmo |-> p.cosmo, mw |-> p.mw,
     e |-> Gen(p.method, <<p.zr, 0>>, <<p.zr, 0>>, p.nb, p.cosmo)]

OtherCosmo(c) == IF c = "default" THEN "named" ELSE "default"
OtherNB(n) == IF n = 1 THEN 3 ELSE 1
Flip(cl) == IF cl = "left" THEN "right" ELSE "left"

ModifyRejected(cf) == cf.e.m = "custom" /\ "ModifyCustomRaises" \in Deviations

(* Configuration.modify: scales.modify; binning.modify regenerates the     *)
(* edges through from_dict -> create from (zmin, zmax, num_bins, method)   *)
Modify(cf, d) ==
    LET c2 == IF d = "cosmology" THEN OtherCosmo(cf.cosmo) ELSE cf.cosmo
        cgen == IF d = "cosmology" THEN c2
                ELSE IF "ModifyDropsCosmology" \in Deviations THEN "default" ELSE cf.cosmo
        n2 == IF d = "num_bins" THEN OtherNB(cf.e.n) ELSE cf.e.n
    IN [closed |-> IF d = "closed" THEN Flip(cf.closed) ELSE cf.closed,
        unit |-> cf.unit,
        scales |-> IF d = "rmin" THEN "single2" ELSE cf.scales,
        wt |-> cf.wt, cosmo |-> c2, mw |-> cf.mw,
        e |-> IF cf.e.m = "custom" THEN cf.e
              ELSE Gen(cf.e.m, First(cf.e), Last(cf.e), n2, cgen)]

NullZ == <<0, 0>>

ToDict(cf) ==
    [method |-> cf.e.m,
     zmin |-> IF cf.e.m = "custom" THEN NullZ ELSE First(cf.e),
     zmax |-> IF cf.e.m = "custom" THEN NullZ ELSE Last(cf.e),
     n |-> IF cf.e.m = "custom" THEN 0 ELSE cf.e.n,
     edges |-> IF cf.e.m = "custom" THEN <<cf.e.lo[1], cf.e.n>> ELSE NullZ,
     closed |-> cf.closed, unit |-> cf.unit, scales |-> cf.scales, wt |-> cf.wt,
     cosmo |-> cf.cosmo, mw |-> cf.mw]

IsCustomDict(d) == d.method = "custom" \/ d.edges # NullZ

FromDict(d) ==
    [closed |-> IF ~IsCustomDict(d) /\ "ClosedDroppedOnRegenerate" \in Deviations
                  THEN "right" ELSE d.closed,
     unit |-> d.unit, scales |-> d.scales, wt |-> d.wt, cosmo |-> d.cosmo, mw |-> d.mw,
     e |-> IF IsCustomDict(d)
             THEN Gen("custom", <<d.edges[1], 0>>, <<d.edges[1], 0>>, d.edges[2], "-")
             ELSE Gen(d.method, d.zmin, d.zmax, d.n,
                      IF "BinningIgnoresCosmology" \in Deviations THEN "default" ELSE d.cosmo)]

CfgCreate ==
    /\ Kind = "cfg" /\ pc = "begin"
    /\ mem' = Create(Obj)
    /\ pc' = IF Obj.src = "modify" THEN "cfg_modify" ELSE "cfg_todict"
    /\ UNCHANGED <<objs, wi, idx, fs, back, outcome>>

CfgModify ==
    /\ Kind = "cfg" /\ pc = "cfg_modify"
    /\ IF ModifyRejected(mem)
         THEN /\ outcome' = "source_rejected" /\ pc' = "done" /\ mem' = mem
         ELSE /\ mem' = Modify(mem, Obj.delta) /\ pc' = "cfg_todict" /\ outcome' = outcome
    /\ UNCHANGED <<objs, wi, idx, fs, back>>

(* mem = the configuration object x; it stays in idx-free storage: the     *)
(* dict goes to back' only at the end, so keep x in mem and the dict in fs *)
CfgToDict ==
    /\ Kind = "cfg" /\ pc = "cfg_todict"
    /\ IF Serialisable(mem.cosmo)
         THEN /\ back' = [x |-> mem, d |-> ToDict(mem)] /\ pc' = "cfg_dump" /\ outcome' = outcome
         ELSE /\ back' = back /\ pc' = "done" /\ outcome' = "rejected_write"
    /\ UNCHANGED <<objs, wi, idx, fs, mem>>

CfgYamlDump ==
    /\ Kind = "cfg" /\ pc = "cfg_dump"
    /\ fs' = back.d
    /\ FinishWrite
    /\ UNCHANGED <<objs, idx, mem, back, outcome>>

CfgYamlLoad ==
    /\ Kind = "cfg" /\ pc = "read"
    /\ back' = [x |-> back.x, d |-> fs]
    /\ pc' = "cfg_fromdict"
    /\ UNCHANGED <<objs, wi, idx, fs, mem, outcome>>

CfgFromDict ==
    /\ Kind = "cfg" /\ pc = "cfg_fromdict"
    /\ IF IsCustomDict(back.d) /\ "CustomDictHasGenKeys" \in Deviations
         THEN /\ outcome' = "raises_ConfigError" /\ back' = back
         ELSE /\ outcome' = "ok" /\ back' = [x |-> back.x, d |-> back.d, y |-> FromDict(back.d)]
    /\ pc' = "done"
    /\ UNCHANGED <<objs, wi, idx, fs, mem>>

---------------------------------------------------------------------------
(*              text files: CorrData / RedshiftData / HistData             *)

TxtClasses == {"CorrData", "RedshiftData", "HistData"}
VClassSeq == <<"zero", "small", "neg", "mid", "negmid", "wide", "huge", "tiny",
               "nan", "pinf", "ninf">>
VClasses == { VClassSeq[n] : n \in 1..Len(VClassSeq) }

(* digits (incl. the sign position) in front of the decimal point as       *)
(* printed by f"{v: .10f}", and the decimals that survive the cut to 10    *)
IntDigits(c) == CASE c \in {"zero", "small", "neg", "tiny"} -> 2
                  [] c \in {"mid", "negmid"} -> 5
                  [] c = "wide" -> 9
                  [] c = "huge" -> 13
                  [] OTHER -> 10
Decimals(c) == IF IntDigits(c) >= 9 THEN 0 ELSE 9 - IntDigits(c)

ReadClass(c) == IF c = "tiny" THEN "zero" ELSE c   \* within 10^-7 of zero

TxtCases ==
    { [cls |-> c, nb |-> b, ns |-> s, closed |-> cl, dcls |-> d, scls |-> sc, pos |-> p] :
        c \in TxtClasses, b \in 1..MaxBins, s \in 1..MaxSamples, cl \in {"left", "right"},
        d \in VClasses, sc \in VClasses, p \in 1..MaxBins }
TxtCasesValid == { o \in TxtCases : o.pos \in {1, o.nb} /\ (Rich \/ o.scls = o.dcls) }
TxtPrior == { [cls |-> "CorrData", nb |-> MaxBins, ns |-> MaxSamples, closed |-> "left",
               dcls |-> "small", scls |-> "small", pos |-> 1] }

NoFile == [present |-> FALSE, rows |-> 0, cols |-> 0, tag |-> "-", vcls |-> "-", pos |-> 0]
TxtEmpty == [dat |-> NoFile, smp |-> NoFile, cov |-> NoFile]

Tag(o) == IF "ClosedTagLost" \in Deviations THEN "right" ELSE o.closed

(* np.loadtxt: dimensionality of the returned array *)
Ndim(f) == IF "LoadtxtSqueeze" \in Deviations /\ (f.rows = 1 \/ f.cols = 1) THEN 1 ELSE 2

TxtWriteDat ==
    /\ Kind = "txt" /\ pc = "begin"
    /\ fs' = [fs EXCEPT !.dat = [present |-> TRUE, rows |-> Obj.nb, cols |-> 4,
                                  tag |-> Tag(Obj), vcls |-> Obj.dcls, pos |-> Obj.pos]]
    /\ pc' = "txt_smp"
    /\ UNCHANGED <<objs, wi, idx, mem, back, outcome>>

TxtWriteSmp ==
    /\ Kind = "txt" /\ pc = "txt_smp"
    /\ fs' = [fs EXCEPT !.smp = [present |-> TRUE, rows |-> Obj.nb, cols |-> 2 + Obj.ns,
                                  tag |-> Tag(Obj), vcls |-> Obj.scls, pos |-> Obj.pos]]
    /\ pc' = "txt_cov"
    /\ UNCHANGED <<objs, wi, idx, mem, back, outcome>>

TxtWriteCov ==
    /\ Kind = "txt" /\ pc = "txt_cov"
    /\ fs' = [fs EXCEPT !.cov = [present |-> TRUE, rows |-> Obj.nb, cols |-> Obj.nb,
                                  tag |-> "-", vcls |-> "-", pos |-> 0]]
    /\ FinishWrite
    /\ UNCHANGED <<objs, idx, mem, back, outcome>>

TxtLoadDat ==
    /\ Kind = "txt" /\ pc = "read"
    /\ IF Ndim(fs.dat) = 1
         THEN /\ outcome' = "raises_IndexError" /\ pc' = "done" /\ mem' = mem
         ELSE /\ mem' = [nb |-> fs.dat.rows, closed |-> fs.dat.tag,
                         dcls |-> IF "ReadsErrorColumn" \in Deviations THEN "err"
                                  ELSE ReadClass(fs.dat.vcls),
                         pos |-> fs.dat.pos]
              /\ pc' = "txt_loadsmp" /\ outcome' = outcome
    /\ UNCHANGED <<objs, wi, idx, fs, back>>

TxtLoadSmp ==
    /\ Kind = "txt" /\ pc = "txt_loadsmp"
    /\ IF Ndim(fs.smp) = 1
         THEN /\ outcome' = "raises_ValueError" /\ pc' = "done" /\ back' = back
         ELSE /\ back' = [ns |-> fs.smp.cols - 2, scls |-> ReadClass(fs.smp.vcls),
                          nbs |-> fs.smp.rows]
              /\ pc' = "txt_construct" /\ outcome' = outcome
    /\ UNCHANGED <<objs, wi, idx, fs, mem>>

TxtConstruct ==
    /\ Kind = "txt" /\ pc = "txt_construct"
    /\ IF back.nbs # mem.nb
         THEN /\ outcome' = "raises_ValueError" /\ back' = back
         ELSE /\ outcome' = "ok"
              /\ back' = [cls |-> Exp.cls, nb |-> mem.nb, ns |-> back.ns, closed |-> mem.closed,
                          dcls |-> mem.dcls, scls |-> back.scls, pos |-> mem.pos]
    /\ pc' = "done"
    /\ UNCHANGED <<objs, wi, idx, fs, mem>>

TxtExpected(o) == [cls |-> o.cls, nb |-> o.nb, ns |-> o.ns, closed |-> o.closed,
                   dcls |-> ReadClass(o.dcls), scls |-> ReadClass(o.scls), pos |-> o.pos]

---------------------------------------------------------------------------
(*                     YAML: patch Metadata                                *)

MetaCases ==
    { [nrec |-> n, sw |-> s, ra |-> r, dec |-> d, rad |-> q] :
        n \in {"zero", "one", "big"},
        s \in {"intval", "frac", "tinyf", "hugef", "zero", "nan", "inf"},
        r \in {"zero", "mid", "max"}, d \in {"south", "zero", "north"},
        q \in {"zero", "small", "pi"} }
MetaPrior == { [nrec |-> "big", sw |-> "frac", ra |-> "mid", dec |-> "north", rad |-> "small"] }

MetaDict(o) ==
    [nrec |-> o.nrec,
     sw |-> IF "SumWeightsAsInt" \in Deviations /\ o.sw \in {"frac", "tinyf"}
              THEN "intval" ELSE o.sw,
     ra |-> o.ra, dec |-> o.dec, rad |-> o.rad]

MetaToDict ==
    /\ Kind = "meta" /\ pc = "begin"
    /\ mem' = MetaDict(Obj) /\ pc' = "meta_dump"
    /\ UNCHANGED <<objs, wi, idx, fs, back, outcome>>

MetaYamlDump ==
    /\ Kind = "meta" /\ pc = "meta_dump"
    /\ fs' = mem
    /\ FinishWrite
    /\ UNCHANGED <<objs, idx, mem, back, outcome>>

MetaYamlLoad ==
    /\ Kind = "meta" /\ pc = "read"
    /\ mem' = fs /\ pc' = "meta_fromdict"
    /\ UNCHANGED <<objs, wi, idx, fs, back, outcome>>

MetaFromDict ==
    /\ Kind = "meta" /\ pc = "meta_fromdict"
    /\ back' = mem /\ outcome' = "ok" /\ pc' = "done"
    /\ UNCHANGED <<objs, wi, idx, fs, mem>>

---------------------------------------------------------------------------
(*                     Catalog cache directory                             *)

CatCases ==
    { [np |-> p, w |-> w, z |-> z, mode |-> m, ids |-> i] :
        p \in 1..MaxPatches, w \in BOOLEAN, z \in BOOLEAN,
        m \in {"centers", "column"}, i \in {"contig", "gaps"} }
CatCasesValid == { o \in CatCases : o.ids = "gaps" => (o.mode = "column" /\ o.np > 1) }
CatPrior == { [np |-> MaxPatches, w |-> TRUE, z |-> TRUE, mode |-> "centers", ids |-> "contig"] }

Ids(o) == IF o.ids = "contig" THEN 0..(o.np - 1) ELSE { 2 * k : k \in 0..(o.np - 1) }
Max(S) == CHOOSE x \in S : \A y \in S : y <= x

NoCat == [present |-> FALSE, ids |-> {}, hasmeta |-> {}, w |-> FALSE, z |-> FALSE, ctr |-> "-"]

(* overwrite=True: the old directory is removed first *)
CatWriteData ==
    /\ Kind = "cat" /\ pc = "begin"
    /\ fs' = [present |-> TRUE,
              ids |-> IF "IdsFileDropsLast" \in Deviations /\ Obj.np > 1
                        THEN Ids(Obj) \ {Max(Ids(Obj))} ELSE Ids(Obj),
              hasmeta |-> {}, w |-> Obj.w, z |-> Obj.z, ctr |-> "-"]
    /\ pc' = "cat_meta"
    /\ UNCHANGED <<objs, wi, idx, mem, back, outcome>>

CatComputeMeta ==
    /\ Kind = "cat" /\ pc = "cat_meta"
    /\ fs' = [fs EXCEPT !.hasmeta = fs.ids,
                        !.ctr = IF Obj.mode = "centers" THEN "given" ELSE "mean"]
    /\ FinishWrite
    /\ UNCHANGED <<objs, idx, mem, back, outcome>>

CatReadIds ==
    /\ Kind = "cat" /\ pc = "read"
    /\ mem' = fs.ids /\ pc' = "cat_load"
    /\ UNCHANGED <<objs, wi, idx, fs, back, outcome>>

CatLoadPatches ==
    /\ Kind = "cat" /\ pc = "cat_load"
    /\ back' = [ids |-> mem, w |-> fs.w, z |-> fs.z,
                ctr |-> IF "OpenRecomputesMeta" \in Deviations \/ ~(mem \subseteq fs.hasmeta)
                          THEN "mean" ELSE fs.ctr]
    /\ outcome' = "ok" /\ pc' = "done"
    /\ UNCHANGED <<objs, wi, idx, fs, mem>>

CatExpected(o) == [ids |-> Ids(o), w |-> o.w, z |-> o.z,
                   ctr |-> IF o.mode = "centers" THEN "given" ELSE "mean"]

---------------------------------------------------------------------------

Cases == CASE Kind = "hdf" -> HdfCases [] Kind = "cfg" -> CfgCases
           [] Kind = "txt" -> TxtCasesValid [] Kind = "meta" -> MetaCases
           [] Kind = "cat" -> CatCasesValid
Prior == CASE Kind = "hdf" -> HdfPrior [] Kind = "cfg" -> CfgPrior
           [] Kind = "txt" -> TxtPrior [] Kind = "meta" -> MetaPrior
           [] Kind = "cat" -> CatPrior
FS0 == CASE Kind = "hdf" -> EmptyFile [] Kind = "txt" -> TxtEmpty
         [] Kind = "cat" -> NoCat [] OTHER -> Nil

Init == /\ objs \in (IF Overwrite THEN { <<a, b>> : a \in Prior, b \in Cases }
                                  ELSE { <<b>> : b \in Cases })
        /\ wi = 1 /\ pc = "begin" /\ idx = 0
        /\ fs = FS0 /\ mem = Nil /\ back = Nil /\ outcome = "-"

Done == pc = "done"

Next == \/ HdfOpenW \/ HdfWriteMember \/ HdfCloseW \/ HdfOpenR \/ HdfLoadMember \/ HdfConstruct
        \/ CfgCreate \/ CfgModify \/ CfgToDict \/ CfgYamlDump \/ CfgYamlLoad \/ CfgFromDict
        \/ TxtWriteDat \/ TxtWriteSmp \/ TxtWriteCov \/ TxtLoadDat \/ TxtLoadSmp \/ TxtConstruct
        \/ MetaToDict \/ MetaYamlDump \/ MetaYamlLoad \/ MetaFromDict
        \/ CatWriteData \/ CatComputeMeta \/ CatReadIds \/ CatLoadPatches
        \/ (Done /\ UNCHANGED vars)

Spec == Init /\ [][Next]_vars /\ WF_vars(Next)

---------------------------------------------------------------------------
(* C11 *)

Expected == CASE Kind = "hdf" -> HdfExpected(Exp)
              [] Kind = "cfg" -> back.x
              [] Kind = "txt" -> TxtExpected(Exp)
              [] Kind = "meta" -> Exp
              [] Kind = "cat" -> CatExpected(Exp)

Got == IF Kind = "cfg" THEN back.y ELSE back

(* outcomes the property leaves open: a write that is refused loudly       *)
(* (cosmology without a YAML form) and a source object that could not be   *)
(* built at all; everything else must read back equal                      *)

RoundTripHolds ==
    \/ outcome = "ok" /\ Got = Expected
    \/ outcome = "rejected_write" /\ Kind = "cfg" /\ ~Serialisable(mem.cosmo)
    \/ outcome = "source_rejected" /\ Kind = "cfg" /\ Exp.src = "modify"

RoundTrip == Done => RoundTripHolds

PCs == {"begin", "read", "done", "hdf_write", "hdf_load", "cfg_modify", "cfg_todict",
        "cfg_dump", "cfg_fromdict", "txt_smp", "txt_cov", "txt_loadsmp", "txt_construct",
        "meta_dump", "meta_fromdict", "cat_meta", "cat_load"}
TypeOK == /\ pc \in PCs /\ wi \in 1..Len(objs) /\ idx \in 0..5
          /\ outcome \in {"-", "ok", "rejected_write", "source_rejected", "raises_TypeError",
                          "raises_EstimatorError", "raises_ValueError", "raises_IndexError",
                          "raises_ConfigError"}

Termination == <>Done

(* what the driver needs per terminal state: the objects, the abstract     *)
(* file, the abstract read-back, the outcome and the text precision        *)
Projection == CASE Kind = "hdf" -> HdfProjection [] OTHER -> fs
Precision == IF Kind = "txt" THEN [d |-> Decimals(Exp.dcls), s |-> Decimals(Exp.scls), e |-> 7]
             ELSE Nil
(* hdf: the cell content of every object written (the driver builds the    *)
(* real arrays from it - the patterns are defined here only)               *)
Contents == IF Kind = "hdf" THEN [n \in 1..Len(objs) |-> HdfExpected(objs[n])] ELSE Nil
PrintDone == Done => PrintT(<<"case", objs, Projection, IF outcome = "ok" THEN Got ELSE Nil,
                             outcome, Precision, Contents, RoundTripHolds>>)
=============================================================================
