------------------------------ MODULE PairIter ------------------------------
(***************************************************************************)
(* correlation/measurements.py: PatchLinkage.iter_patch_id_pairs           *)
(*                                                                         *)
(*   patch_links = deepcopy(self.patch_links)       {i: set of linked j}   *)
(*   for i, links in patch_links.items():           "autos"                *)
(*       links.remove(i); yield (i, i)                                     *)
(*   while len(patch_links) > 0:                    one "round" per pass   *)
(*       exhausted = set()                                                 *)
(*       for i, links in patch_links.items():       RoundStep              *)
(*           try:    j = links.pop()                (ANY element)          *)
(*           except KeyError: exhausted.add(i); continue                   *)
(*           if not auto or j > i: yield (i, j)                            *)
(*       for i in exhausted: patch_links.pop(i)     RoundEnd               *)
(*                                                                         *)
(* The link relation is chosen in Init among all symmetric, reflexive      *)
(* relations on NP patches (what PatchLinkage.from_catalogs produces:      *)
(* Sky.tla LinkSymmetric, SelfLinked).  set.pop() is modelled as a free    *)
(* choice, so TLC explores every order in which pairs can be yielded.      *)
(***************************************************************************)
EXTENDS Naturals, Sequences, FiniteSets, TLC

CONSTANTS NP, Autos       \* patches 1..NP; Autos \subseteq BOOLEAN: measurement kinds explored

VARIABLES links0, auto, plinks, alive, phase, cursor, order, exh, yielded

vars == <<links0, auto, plinks, alive, phase, cursor, order, exh, yielded>>

P == 1..NP
Symmetric(r) == \A i \in P, j \in P : (j \in r[i]) = (i \in r[j])
Reflexive(r) == \A i \in P : i \in r[i]

RECURSIVE SortedSeq(_)
SortedSeq(S) == IF S = {} THEN <<>> ELSE LET m == CHOOSE x \in S : \A y \in S : x <= y IN <<m>> \o SortedSeq(S \ {m})

Init == /\ links0 \in { r \in [P -> SUBSET P] : Symmetric(r) /\ Reflexive(r) }
        /\ auto \in Autos
        /\ plinks = links0 /\ alive = P
        /\ phase = "autos" /\ cursor = 1 /\ order = SortedSeq(P) /\ exh = {} /\ yielded = <<>>

AutoStep ==
    /\ phase = "autos" /\ cursor <= NP
    /\ plinks' = [plinks EXCEPT ![cursor] = @ \ {cursor}]
    /\ yielded' = Append(yielded, <<cursor, cursor>>)
    /\ cursor' = cursor + 1
    /\ UNCHANGED <<links0, auto, alive, phase, order, exh>>

AutosDone ==
    /\ phase = "autos" /\ cursor = NP + 1
    /\ phase' = "round" /\ cursor' = 1
    /\ UNCHANGED <<links0, auto, plinks, alive, order, exh, yielded>>

RoundStep ==
    /\ phase = "round" /\ alive # {} /\ cursor <= Len(order)
    /\ LET i == order[cursor] IN
         IF plinks[i] = {}
           THEN /\ exh' = exh \cup {i} /\ UNCHANGED <<plinks, yielded>>
           ELSE \E j \in plinks[i] :
                  /\ plinks' = [plinks EXCEPT ![i] = @ \ {j}]
                  /\ yielded' = IF ~auto \/ j > i THEN Append(yielded, <<i, j>>) ELSE yielded
                  /\ UNCHANGED exh
    /\ cursor' = cursor + 1
    /\ UNCHANGED <<links0, auto, alive, phase, order>>

RoundEnd ==
    /\ phase = "round" /\ alive # {} /\ cursor > Len(order)
    /\ alive' = alive \ exh /\ exh' = {}
    /\ order' = SortedSeq(alive \ exh) /\ cursor' = 1
    /\ UNCHANGED <<links0, auto, plinks, phase, yielded>>

Done == phase = "round" /\ alive = {}

Next == AutoStep \/ AutosDone \/ RoundStep \/ RoundEnd \/ (Done /\ UNCHANGED vars)
Spec == Init /\ [][Next]_vars /\ WF_vars(Next)

---------------------------------------------------------------------------
Times(p) == Cardinality({ k \in 1..Len(yielded) : yielded[k] = p })
Wanted == IF auto THEN { <<i, j>> \in P \X P : j \in links0[i] /\ i <= j }
          ELSE { <<i, j>> \in P \X P : j \in links0[i] }

(* C01: each linked pair is visited exactly once (upper triangle for auto), nothing else *)
EachLinkedPairOnce == Done => /\ \A p \in Wanted : Times(p) = 1
                              /\ \A k \in 1..Len(yielded) : yielded[k] \in Wanted
NeverTwice == \A p \in P \X P : Times(p) <= 1
AutosFirst == \A k \in 1..Len(yielded) : (k <= NP /\ Len(yielded) >= NP) => yielded[k] = <<k, k>>
Termination == <>Done
PrintDone == Done => PrintT(<<"done", links0, auto, yielded>>)
=============================================================================
