------------------------------ MODULE RandomGen ------------------------------
(***************************************************************************)
(* Random catalogs: generator re-seeding and size bookkeeping (C16).       *)
(*                                                                         *)
(* Code                                   action / operator here           *)
(* -------------------------------------  -------------------------------- *)
(* randoms.py  RandomsBase.__init__       Construct(s)  BoxRandoms(..,     *)
(*                                          seed=s): self.reseed(s)        *)
(*             RandomsBase.reseed(seed)   Reseed(s)  (s = NoSeed: reseed())*)
(*             RandomsBase.__call__(n)    Call(n)   = _draw_coords(n);     *)
(*                                          _draw_attributes(n) : one      *)
(*                                          stream segment of "size n"     *)
(*             generate_dataframe(n)      Frame(n)                         *)
(* readers.py  RandomReader.__init__      NewReader   (_reset_iter_state)  *)
(*             RandomReader.get_probe(n)  Probe(n)    (reseed; call n)     *)
(*             RandomReader.__iter__      IterStart   (_reset_iter_state:  *)
(*                                          _num_samples = 0; reseed())    *)
(*             DataChunkReader.__next__   NextChunk / StopPass             *)
(*               + _get_next_chunk          (_num_samples += chunksize;    *)
(*                                          truncated last chunk)          *)
(*             (iterator dropped)         Abandon                          *)
(* catalog.py  Catalog.from_random        FRStart    RandomReader(...)     *)
(*               create_patch_centers     FRCenters  probe-size rule +     *)
(*                                                   reader.get_probe      *)
(*               write_patches:                                            *)
(*                 chunk_iter = iter(rd)  FRIter                           *)
(*                 for chunk in chunk_iter  FRFor  (the for statement      *)
(*                                          calls iter() once more:        *)
(*                                          __iter__ returns self and      *)
(*                                          resets + reseeds again)        *)
(*                   (loop body)          FRNext / FRStop                  *)
(*                                                                         *)
(* The random stream is abstracted to what determines it: after            *)
(* reseed() the numpy Generator is a function of (seed, spawn index of     *)
(* the SeedSequence child); every __call__(n) advances it by a segment     *)
(* that depends on the sizes of the calls made since the reseed.  Hence    *)
(* the points returned by one call are identified by the TOKEN             *)
(*        <<seed, spawn, glob, used, n>>                                   *)
(* (used = sizes of the calls since the last reseed; glob = draws taken    *)
(* from a process-global RNG, 0 in the ideal design).  Two outputs with    *)
(* the same token are the same points; the output of a brand-new           *)
(* generator BoxRandoms(seed) on its (k+1)-th call has token               *)
(* <<seed, 0, 0, <<n1..nk>>, n>>.  The driver realises every token on a     *)
(* fresh real generator and demands bit-identical arrays.                  *)
(*                                                                         *)
(* The seed VALUE is part of the case analysis: Seeds contains the real     *)
(* seed 0 (the falsy edge value; "seed is None" and "not seed" differ      *)
(* exactly there) next to abstract non-zero seeds (mapped to real non-zero *)
(* seeds by the driver).  "No seed given" (reseed() / reseed(None)) is the *)
(* separate value NoSeed = -1, never a member of Seeds.  Every seed of     *)
(* InitSeeds is used for construction, every seed of Seeds and NoSeed for  *)
(* an explicit reseed at any point of a history.                           *)
(*                                                                         *)
(* A behaviour = one scenario (generator kind, num_randoms N, chunksize C, *)
(* patch_num k, probe_size p; chosen in Init) + the construction of the    *)
(* generator with a seed of InitSeeds + a history of at most               *)
(* MaxOps public operations.  hist records per operation the expected      *)
(* outcome, the expected tokens and the expected generator events          *)
(* (reseed / call) - this is what the driver replays and compares.         *)
(*                                                                         *)
(* Deviations (departures from the property-preserving design):            *)
(*   "ModuloLastChunk"        last chunk = N % C             (seed C16-A)  *)
(*   "StatefulSeeder"         reseed() spawns the next child of a kept     *)
(*                            SeedSequence                   (seed C16-B)  *)
(*   "NoReseedAtIter"         __iter__ does not reseed                     *)
(*   "NoReseedAtProbe"        get_probe does not reseed                    *)
(*   "NoPosResetAtIter"       __iter__ does not reset _num_samples         *)
(*   "ProbeBoundedByRecords"  get_probe(n > N) raises ValueError, also for *)
(*                            the library-chosen default probe of          *)
(*                            from_random(patch_num=k)    (code as found)  *)
(*   "ProbeClampedToRecords"  alternative design: probe = min(n, N)        *)
(*   "DefaultProbeClampedToRecords"  alternative design: only the library- *)
(*                            chosen default probe is limited to N         *)
(*   "GlobalPixelRng"         HealPixRandoms draws the pixels with         *)
(*                            np.random.choice (global RNG) (code as found)*)
(*   "FalsySeedIsNoSeed"      reseed(seed) tests the truth value of seed   *)
(*                            (`seed or self.seed`) instead of `is None`:  *)
(*                            reseed(0) keeps the old seed, the            *)
(*                            constructor with seed=0 raises AttributeError*)
(*                            (self.seed does not exist yet)  (seed C16-E) *)
(***************************************************************************)
EXTENDS Integers, Sequences, FiniteSets, TLC

CONSTANTS Scenarios,    \* set of [kind, N, C, k, p]; C = 0: chunksize=None,
                        \*   k = 0: patch_centers given, k > 0: patch_num=k,
                        \*   p = 0: probe_size left at its default (-1)
          Seeds,        \* seeds: 0 is the real seed 0, s > 0 abstract non-zero seeds
          InitSeeds,    \* seeds used for the construction Randoms(..., seed=s)
          CallSizes,    \* sizes of direct calls gen(n)
          FrameSizes,   \* sizes of gen.generate_dataframe(n)
          ProbeSizes,   \* sizes of direct reader.get_probe(n)
          Ops,          \* public operations allowed in histories
          MaxOps,       \* public operations per history
          DefProbe,     \* k |-> int(100_000 * sqrt(k))  (create_patch_centers)
          DefaultChunk, \* readers.CHUNKSIZE
          Deviations

VARIABLES sc,     \* scenario (constant during a behaviour)
          gen,    \* generator: [seed, spawn, used]
          glob,   \* number of draws taken from the process-global RNG so far
          rd,     \* the reader in use: [st, N, C, pos]; st in none|ready|iter|done
          urd,    \* the user's RandomReader while from_random runs on its own one
          pc,     \* new (no generator yet) | dead (constructor raised) |
                  \* idle | fr_centers | fr_iter | fr_for | fr_next   (inside from_random)
          hist,   \* sequence of operation entries
          nops    \* public operations performed

vars == <<sc, gen, glob, rd, urd, pc, hist, nops>>

Dev(d) == d \in Deviations

---------------------------------------------------------------------------
(* generator *)

NoSeed == -1         \* reseed() / reseed(None): no seed given (not a seed: NoSeed \notin Seeds)

(* does reseed(s) keep the stored seed?  `if seed is not None` in the design *)
KeepsSeed(s) == s = NoSeed \/ (Dev("FalsySeedIsNoSeed") /\ s = 0)

Reseeded(g, s) ==    \* RandomsBase.reseed(s)
    [seed  |-> IF KeepsSeed(s) THEN g.seed ELSE s,
     spawn |-> IF Dev("StatefulSeeder") THEN (IF s = NoSeed THEN g.spawn + 1 ELSE 0) ELSE 0,
     used  |-> <<>>]

NoGen == [seed |-> NoSeed, spawn |-> 0, used |-> <<>>]      \* before the constructor ran

GlobalRng == sc.kind = "healpix" /\ Dev("GlobalPixelRng")

Tok(g, n)   == <<g.seed, g.spawn, IF GlobalRng THEN glob ELSE 0, g.used, n>>
Drawn(g, n) == [g EXCEPT !.used = Append(@, n)]
GlobAfter   == IF GlobalRng THEN glob + 1 ELSE glob

(* what a brand-new generator with seed s returns on a call of size n after *)
(* calls of the sizes pre                                                   *)
FreshTok(s, pre, n) == <<s, 0, 0, pre, n>>

EvReseed(s) == <<"reseed", s>>
EvCall(n)   == <<"call", n>>

---------------------------------------------------------------------------
(* reader *)

CEff(c) == IF c = 0 THEN DefaultChunk ELSE c     \* chunksize or CHUNKSIZE

NoReader == [st |-> "none", N |-> 0, C |-> 1, pos |-> 0]

(* size of the chunk produced by __next__; r.pos is already incremented *)
ChunkSize(r) ==
    IF r.pos >= r.N
      THEN IF Dev("ModuloLastChunk") THEN r.N % r.C ELSE r.C - (r.pos - r.N)
      ELSE r.C

(* get_probe / create_patch_centers size rules *)
ProbeRejected(n, N) == Dev("ProbeBoundedByRecords") /\ n > N
ProbeDrawn(n, N)    == IF Dev("ProbeClampedToRecords") /\ n > N THEN N ELSE n
Min(a, b)           == IF a < b THEN a ELSE b
CentersProbe(k, p)  == IF p < 10 * k
                         THEN IF Dev("DefaultProbeClampedToRecords") THEN Min(DefProbe[k], sc.N) ELSE DefProbe[k]
                         ELSE p

---------------------------------------------------------------------------
(* history entries: uniform shape *)

Entry(op, a, out, pr, res, ev) ==
    [op |-> op, a |-> a, out |-> out, pr |-> pr, res |-> res, ev |-> ev]

Last        == hist[Len(hist)]
SetLast(e)  == [hist EXCEPT ![Len(hist)] = e]

Idle(o) == pc = "idle" /\ nops < MaxOps /\ o \in Ops

Init == /\ sc \in Scenarios
        /\ gen = NoGen
        /\ glob = 0
        /\ rd = NoReader
        /\ urd = NoReader
        /\ pc = "new"
        /\ hist = <<>>
        /\ nops = 0

---------------------------------------------------------------------------
(* construction: gen = BoxRandoms(..., seed=s) / HealPixRandoms(..., seed=s);  *)
(* RandomsBase.__init__ calls self.reseed(s).  Not counted in nops (every      *)
(* history starts with it).                                                    *)

Construct(s) ==
    /\ pc = "new"
    /\ IF KeepsSeed(s)      \* only under FalsySeedIsNoSeed: self.seed read before it exists
         THEN /\ hist' = <<Entry("new", s, "AttributeError", <<>>, <<>>, <<EvReseed(s)>>)>>
              /\ pc' = "dead"
              /\ UNCHANGED gen
         ELSE /\ hist' = <<Entry("new", s, "ok", <<>>, <<>>, <<EvReseed(s)>>)>>
              /\ gen' = Reseeded(gen, s)
              /\ pc' = "idle"
    /\ UNCHANGED <<sc, glob, rd, urd, nops>>

---------------------------------------------------------------------------
(* direct use of the generator *)

DrawOp(o, n) ==
    /\ Idle(o) /\ rd.st # "iter"
    /\ hist' = Append(hist, Entry(o, n, "ok", <<>>, <<Tok(gen, n)>>, <<EvCall(n)>>))
    /\ gen' = Drawn(gen, n) /\ glob' = GlobAfter /\ nops' = nops + 1
    /\ UNCHANGED <<sc, rd, urd, pc>>

Call(n)  == DrawOp("call", n)       \* gen(n)
Frame(n) == DrawOp("frame", n)      \* gen.generate_dataframe(n)

Reseed(s) ==                        \* gen.reseed(s) / gen.reseed() (s = NoSeed)
    /\ Idle("reseed") /\ rd.st # "iter"
    /\ hist' = Append(hist, Entry("reseed", s, "ok", <<>>, <<>>, <<EvReseed(s)>>))
    /\ gen' = Reseeded(gen, s) /\ nops' = nops + 1
    /\ UNCHANGED <<sc, glob, rd, urd, pc>>

---------------------------------------------------------------------------
(* direct use of a RandomReader *)

NewReader ==                        \* RandomReader(gen, N, C)
    /\ Idle("reader") /\ rd.st # "iter"
    /\ rd' = [st |-> "ready", N |-> sc.N, C |-> CEff(sc.C), pos |-> 0]
    /\ gen' = Reseeded(gen, NoSeed)
    /\ hist' = Append(hist, Entry("reader", sc.N, "ok", <<>>, <<>>, <<EvReseed(NoSeed)>>))
    /\ nops' = nops + 1
    /\ UNCHANGED <<sc, glob, urd, pc>>

Probe(n) ==                         \* reader.get_probe(n)
    /\ Idle("probe") /\ rd.st \in {"ready", "done"}
    /\ nops' = nops + 1
    /\ IF ProbeRejected(n, rd.N)
         THEN /\ hist' = Append(hist, Entry("probe", n, "ValueError", <<>>, <<>>, <<>>))
              /\ UNCHANGED <<gen, glob>>
         ELSE LET m == ProbeDrawn(n, rd.N)
                  g == IF Dev("NoReseedAtProbe") THEN gen ELSE Reseeded(gen, NoSeed)
              IN /\ hist' = Append(hist, Entry("probe", n, "ok", <<Tok(g, m)>>, <<>>,
                                     (IF Dev("NoReseedAtProbe") THEN <<>> ELSE <<EvReseed(NoSeed)>>)
                                        \o <<EvCall(m)>>))
                 /\ gen' = Drawn(g, m) /\ glob' = GlobAfter
    /\ UNCHANGED <<sc, rd, urd, pc>>

IterReset(r) == [r EXCEPT !.st = "iter", !.pos = IF Dev("NoPosResetAtIter") THEN @ ELSE 0]
IterGen      == IF Dev("NoReseedAtIter") THEN gen ELSE Reseeded(gen, NoSeed)
IterEv       == IF Dev("NoReseedAtIter") THEN <<>> ELSE <<EvReseed(NoSeed)>>

IterStart ==                        \* it = iter(reader)
    /\ Idle("iter") /\ rd.st \in {"ready", "done"}
    /\ rd' = IterReset(rd)
    /\ gen' = IterGen
    /\ hist' = Append(hist, Entry("pass", rd.N, "open", <<>>, <<>>, IterEv))
    /\ nops' = nops + 1
    /\ UNCHANGED <<sc, glob, urd, pc>>

(* next(it): the step shared by the reader-level pass and from_random *)
NextStep(stopout, nextpc, rdAfterStop) ==
    IF rd.pos >= rd.N
      THEN /\ rd' = rdAfterStop                        \* StopIteration
           /\ hist' = SetLast([Last EXCEPT !.out = stopout])
           /\ pc' = "idle"
           /\ UNCHANGED <<gen, glob>>
      ELSE LET r == [rd EXCEPT !.pos = @ + rd.C]
               n == ChunkSize(r)
           IN /\ rd' = r
              /\ hist' = SetLast([Last EXCEPT !.res = Append(@, Tok(gen, n)),
                                              !.ev = Append(@, EvCall(n))])
              /\ gen' = Drawn(gen, n) /\ glob' = GlobAfter
              /\ pc' = nextpc

NextChunk ==                        \* next(it) yields a chunk
    /\ pc = "idle" /\ rd.st = "iter" /\ rd.pos < rd.N
    /\ NextStep("complete", "idle", [rd EXCEPT !.st = "done"])
    /\ UNCHANGED <<sc, urd, nops>>

StopPass ==                         \* next(it) raises StopIteration
    /\ pc = "idle" /\ rd.st = "iter" /\ rd.pos >= rd.N
    /\ NextStep("complete", "idle", [rd EXCEPT !.st = "done"])
    /\ UNCHANGED <<sc, urd, nops>>

Abandon ==                          \* the iterator is dropped mid-pass
    /\ Idle("abandon") /\ rd.st = "iter" /\ rd.pos < rd.N
    /\ rd' = [rd EXCEPT !.st = "ready"]
    /\ hist' = SetLast([Last EXCEPT !.out = "abandoned"])
    /\ nops' = nops + 1
    /\ UNCHANGED <<sc, gen, glob, urd, pc>>

---------------------------------------------------------------------------
(* Catalog.from_random(path, gen, N, chunksize=C, patch_centers=.. | patch_num=k, probe_size=p) *)

FRStart ==                          \* rand_iter = RandomReader(generator, num_randoms, chunksize)
    /\ Idle("from_random") /\ rd.st # "iter"
    /\ urd' = rd
    /\ rd' = [st |-> "ready", N |-> sc.N, C |-> CEff(sc.C), pos |-> 0]
    /\ gen' = Reseeded(gen, NoSeed)
    /\ hist' = Append(hist, Entry("from_random", sc.N, "running", <<>>, <<>>, <<EvReseed(NoSeed)>>))
    /\ pc' = IF sc.k > 0 THEN "fr_centers" ELSE "fr_iter"
    /\ nops' = nops + 1
    /\ UNCHANGED <<sc, glob>>

FRCenters ==                        \* create_patch_centers(rand_iter, patch_num, probe_size)
    /\ pc = "fr_centers"
    /\ LET n == CentersProbe(sc.k, sc.p) IN
       IF ProbeRejected(n, rd.N)
         THEN /\ hist' = SetLast([Last EXCEPT !.out = "ValueError"])
              /\ pc' = "idle"
              /\ rd' = urd
              /\ UNCHANGED <<gen, glob>>
         ELSE LET m == ProbeDrawn(n, rd.N)
                  g == IF Dev("NoReseedAtProbe") THEN gen ELSE Reseeded(gen, NoSeed)
              IN /\ hist' = SetLast([Last EXCEPT !.pr = <<Tok(g, m)>>,
                                                 !.ev = @ \o (IF Dev("NoReseedAtProbe") THEN <<>> ELSE <<EvReseed(NoSeed)>>)
                                                          \o <<EvCall(m)>>])
                 /\ gen' = Drawn(g, m) /\ glob' = GlobAfter
                 /\ pc' = "fr_iter"
                 /\ rd' = rd
    /\ UNCHANGED <<sc, urd, nops>>

FRIterStep(here, there) ==
    /\ pc = here
    /\ rd' = IterReset(rd)
    /\ gen' = IterGen
    /\ hist' = SetLast([Last EXCEPT !.ev = @ \o IterEv])
    /\ pc' = there
    /\ UNCHANGED <<sc, glob, urd, nops>>

FRIter == FRIterStep("fr_iter", "fr_for")    \* write_patches: chunk_iter = iter(reader)
FRFor  == FRIterStep("fr_for", "fr_next")    \* for chunk in chunk_iter: implicit iter(chunk_iter)

FRNext ==                           \* for chunk in reader: split, write
    /\ pc = "fr_next" /\ rd.pos < rd.N
    /\ NextStep("ok", "fr_next", urd)
    /\ UNCHANGED <<sc, urd, nops>>

FRStop ==                           \* StopIteration: finalize, load_patches
    /\ pc = "fr_next" /\ rd.pos >= rd.N
    /\ NextStep("ok", "fr_next", urd)
    /\ UNCHANGED <<sc, urd, nops>>

---------------------------------------------------------------------------

SomeCall   == \E n \in CallSizes : Call(n)
SomeFrame  == \E n \in FrameSizes : Frame(n)
SomeReseed == \E s \in Seeds \cup {NoSeed} : Reseed(s)
SomeConstruct == \E s \in InitSeeds : Construct(s)
SomeProbe  == \E n \in ProbeSizes : Probe(n)

Quiescent == pc = "idle" /\ rd.st # "iter"
Done      == (nops = MaxOps /\ Quiescent) \/ pc = "dead"

Next == \/ SomeConstruct
        \/ SomeCall \/ SomeFrame \/ SomeReseed
        \/ NewReader \/ SomeProbe \/ IterStart \/ NextChunk \/ StopPass \/ Abandon
        \/ FRStart \/ FRCenters \/ FRIter \/ FRFor \/ FRNext \/ FRStop
        \/ (Done /\ UNCHANGED vars)

Spec == Init /\ [][Next]_vars /\ WF_vars(Next)

---------------------------------------------------------------------------
(* properties *)

RECURSIVE SumSizes(_)
SumSizes(toks) == IF toks = <<>> THEN 0 ELSE toks[1][5] + SumSizes(Tail(toks))

Rep(x, k) == [i \in 1..k |-> x]

Chunked(e)  == e.op \in {"pass", "from_random"}
Finished(e) == (e.op = "pass" /\ e.out = "complete") \/ (e.op = "from_random" /\ e.out = "ok")

(* the reader parameters of every pass are those of the scenario *)
NEff == sc.N
CEf  == CEff(sc.C)
NumChunks == (NEff + CEf - 1) \div CEf

(* exactly N points, in ceil(N/C) chunks, all full but the truncated last one, none empty *)
ExactSize ==
    \A i \in 1..Len(hist) : LET e == hist[i] IN
      /\ (Chunked(e) => \A j \in 1..Len(e.res) : e.res[j][5] \in 1..CEf)
      /\ (Finished(e) =>
            /\ SumSizes(e.res) = NEff
            /\ Len(e.res) = NumChunks
            /\ \A j \in 1..(Len(e.res) - 1) : e.res[j][5] = CEf)

(* every pass and every probe starts on a freshly seeded stream *)
ReseedAtPassStart ==
    \A i \in 1..Len(hist) : LET e == hist[i] IN
      /\ (Chunked(e) /\ Len(e.res) > 0 => e.res[1][4] = <<>>)
      /\ (Len(e.pr) > 0 => e.pr[1][4] = <<>>)

(* C16: the points of a pass / probe / catalog are those of a brand-new     *)
(* generator with the same seed, whatever happened before                   *)
Reproducible ==
    \A i \in 1..Len(hist) : LET e == hist[i] IN
      /\ (Chunked(e) => \A j \in 1..Len(e.res) :
            e.res[j] = FreshTok(e.res[j][1], Rep(CEf, j - 1), e.res[j][5]))
      /\ (Len(e.pr) > 0 => e.pr[1] = FreshTok(e.pr[1][1], <<>>, e.pr[1][5]))

(* reseed(s) followed by a draw reproduces the first draw of Randoms(seed=s); *)
(* so does the first draw after the construction                             *)
ReseedRestores ==
    \A i \in 2..Len(hist) :
      (hist[i - 1].op \in {"reseed", "new"} /\ hist[i].op \in {"call", "frame"})
        => /\ hist[i].res[1] = FreshTok(hist[i].res[1][1], <<>>, hist[i].a)
           /\ (hist[i - 1].a # NoSeed => hist[i].res[1][1] = hist[i - 1].a)

(* "reproducible by seed": every output carries the seed the user gave LAST  *)
(* (constructor or reseed(s) with a seed; 0 is a seed like any other)        *)
SeedGiven(j)     == hist[j].op \in {"new", "reseed"} /\ hist[j].a # NoSeed
RequestedSeed(i) == LET js == {j \in 1..(i - 1) : SeedGiven(j)}
                        m  == CHOOSE j \in js : \A l \in js : l <= j
                    IN hist[m].a
SeedAsRequested ==
    \A i \in 2..Len(hist) : LET e == hist[i] IN
      /\ \A j \in 1..Len(e.res) : e.res[j][1] = RequestedSeed(i)
      /\ \A j \in 1..Len(e.pr) : e.pr[j][1] = RequestedSeed(i)

(* the constructor accepts every seed *)
ConstructNeverRejected ==
    \A i \in 1..Len(hist) : hist[i].op = "new" => hist[i].out = "ok"

(* nothing but the seed-controlled stream enters any output *)
SeedControlled ==
    \A i \in 1..Len(hist) : LET e == hist[i] IN
      /\ \A j \in 1..Len(e.res) : e.res[j][2] = 0 /\ e.res[j][3] = 0
      /\ \A j \in 1..Len(e.pr) : e.pr[j][2] = 0 /\ e.pr[j][3] = 0

(* a random catalog can be created for every requested size; only a probe   *)
(* size the USER asked for explicitly (p >= 10 k, not replaced by the       *)
(* library default) and that exceeds N may be refused (documented for       *)
(* get_probe)                                                               *)
UserProbeTooLarge == sc.k > 0 /\ sc.p >= 10 * sc.k /\ sc.p > sc.N
CreateNeverRejected ==
    \A i \in 1..Len(hist) :
      hist[i].op = "from_random" => (hist[i].out \in {"running", "ok"} \/ UserProbeTooLarge)

TypeOK == /\ sc \in Scenarios
          /\ InitSeeds \subseteq Seeds /\ NoSeed \notin Seeds
          /\ gen.seed \in Seeds \cup {NoSeed} /\ gen.spawn \in Nat /\ glob \in Nat
          /\ (pc \notin {"new", "dead"} => gen.seed \in Seeds)
          /\ rd.st \in {"none", "ready", "iter", "done"}
          /\ pc \in {"new", "dead", "idle", "fr_centers", "fr_iter", "fr_for", "fr_next"}
          /\ nops \in 0..MaxOps
          /\ Len(hist) <= MaxOps + 1
          /\ (Len(hist) > 0 => hist[1].op = "new")

Termination == <>Done

(* complete histories are printed for the replay driver *)
PrintDone == Done => PrintT(<<"hist", sc, hist>>)
=============================================================================
