--------------------------- MODULE CreatePipeline ---------------------------
(***************************************************************************)
(* catalog/catalog.py: catalog creation (C02 exactness, C09 fail-stop).    *)
(*                                                                         *)
(* Sequential (max_workers = 1, write_patches_unthreaded):                 *)
(*   with reader:                                                          *)
(*     with CatalogWriter(path, overwrite) as writer:      SeqInit         *)
(*       for chunk in reader:                              SeqChunk        *)
(*           writer.process_patches(split_into_patches(chunk))             *)
(*     # CatalogWriter.__exit__ -> finalize()              SeqFinal        *)
(*   load_patches(path)                                    Load            *)
(*                                                                         *)
(* Multiprocessing (max_workers = W > 1, write_patches):                   *)
(*   with reader, Manager(), Pool(W):                                      *)
(*     with WriterProcess(queue, path, ...):   MStart (process start)      *)
(*         for chunk in reader:                MRead  (DataChunk.create)   *)
(*             pool.map(task, array_split(chunk, W))   Work(k) = put(part) *)
(*                                             MMapDone                    *)
(*         queue.put(EndOfQueue)               MPutEOQ                     *)
(*     # WriterProcess.__exit__ -> process.join()          MJoin           *)
(*   writer process:  CatalogWriter.__init__   WInit                       *)
(*                    while queue.get() is not EndOfQueue: WGet            *)
(*                    CatalogWriter.__exit__ -> finalize() WFinal          *)
(*   load_patches(path)                                    Load            *)
(*                                                                         *)
(* A scenario cfg fixes: L records, chunksize CS, W workers, what exists   *)
(* at the cache path beforehand (Pre), the overwrite flag, an input fault  *)
(* in chunk FaultChunk (non-finite value, patch id out of range, missing   *)
(* column -> DataChunk.create raises in the reading process) and whether   *)
(* one of the given centres attracts no record.  cfg.Where says where the  *)
(* fault of chunk FaultChunk strikes: in the "reader" (input faults), in   *)
(* the pool "worker" whose part holds the chunk's first record             *)
(* (split_into_patches raises: WorkFail, then pool.map re-raises once all  *)
(* tasks are finished), or in the "writer" (process_patches raises when    *)
(* it handles the item with that record: the writer process dies with a    *)
(* non-zero exit code while the main process carries on feeding the queue).*)
(* cfg.Kill: the environment may SIGKILL the writer process (OOM killer,   *)
(* operator): "init" = before it ran a statement, "get" = at any moment    *)
(* while it is in its receive loop.  Its exit code is then negative; the   *)
(* creation must raise (and not, e.g., load a catalog that was to be       *)
(* overwritten).                                                           *)
(*                                                                         *)
(* Deviations (code as found):                                             *)
(*  "FinalizeOnException"  CatalogWriter.__exit__ finalises on the error   *)
(*        path too: patch_ids.bin is written, a partial catalog opens      *)
(*  "NoSentinelOnError"    WriterProcess.__exit__ joins without sending    *)
(*        EndOfQueue: writer blocks in get() forever, join() never returns *)
(*        (ideal / fixed: the writer process is terminated, then joined)   *)
(*  "WriterErrorVanishes"  the writer's exit code is ignored: after        *)
(*        FileExistsError in the writer the OLD catalog is loaded          *)
(*  "RmtreeAnyDir"         overwrite=True removes whatever directory       *)
(*        exists at the path, catalog or not                               *)
(*  "EmptyCentreUnnoticed" no writer exists for a centre without records,  *)
(*        finalize()'s empty check cannot fire; centres are zipped to the  *)
(*        remaining ids                                                    *)
(***************************************************************************)
EXTENDS Naturals, Sequences, FiniteSets, TLC

CONSTANTS MaxL, MaxCS, Ws, Pres, Faults, Wheres, Kills, BufSizes, Deviations

NP == 2                                   \* patches / given centres

VARIABLES cfg, mpc, wpc, c, pending, q, file, buf, dir, ids, wexit, outcome, loaded, werr

vars == <<cfg, mpc, wpc, c, pending, q, file, buf, dir, ids, wexit, outcome, loaded, werr>>

Dev(d) == d \in Deviations
L == cfg.L
CS == cfg.CS
W == cfg.W
Records == 1..L
NC == (L + CS - 1) \div CS                 \* number of chunks
ChunkOf(r) == ((r - 1) \div CS) + 1
ChunkRecs(k) == { r \in Records : ChunkOf(r) = k }
(* record r goes to patch r % NP; with an empty centre everything goes to patch 0 *)
PatchOf(r) == IF cfg.EmptyCentre THEN 0 ELSE r % NP
(* np.array_split(chunk, W): part j (1..W) of chunk k; sizes differ by at most one *)
PartOf(k, r) ==
    LET n == Cardinality(ChunkRecs(k))
        i == r - (k - 1) * CS                      \* 1-based position in the chunk
        big == n % W                               \* the first `big` parts have one more
        sz == n \div W
    IN IF i <= big * (sz + 1) THEN ((i - 1) \div (sz + 1)) + 1
       ELSE big + ((i - 1 - big * (sz + 1)) \div (IF sz = 0 THEN 1 ELSE sz)) + 1
Part(k, j) == { r \in ChunkRecs(k) : PartOf(k, r) = j }
(* the record that triggers an injected worker / writer fault: first of the chunk *)
FaultRec == (cfg.FaultChunk - 1) * CS + 1

(* the scenario is a well-formed member of the explored domain *)
CfgOK(x) == /\ x.L \in 1..MaxL /\ x.CS \in 1..MaxCS /\ x.W \in Ws /\ x.Pre \in Pres /\ x.Ow \in BOOLEAN
            /\ x.FaultChunk \in Faults /\ x.EmptyCentre \in BOOLEAN /\ x.Where \in Wheres /\ x.Kill \in Kills /\ x.Buf \in BufSizes
            /\ (x.FaultChunk > 0 => x.FaultChunk <= (x.L + x.CS - 1) \div x.CS)          \* fault in an existing chunk
            /\ (x.FaultChunk = 0 => x.Where = "reader")
            /\ (x.Kill # "none" => (x.FaultChunk = 0 /\ ~x.EmptyCentre /\ x.W > 1))
(* everything but the choice of the scenario (the trace spec binds cfg to the recorded scenario instead) *)
InitRest == /\ mpc = "start" /\ wpc = "notstarted" /\ c = 1 /\ pending = {} /\ q = <<>>
            /\ file = [pp \in 0..(NP - 1) |-> {}] /\ buf = [pp \in 0..(NP - 1) |-> {}]
            /\ dir = cfg.Pre /\ ids = (cfg.Pre = "old")
            /\ wexit = 0 /\ outcome = "none" /\ loaded = "none" /\ werr = FALSE
Init == /\ \E l \in 1..MaxL, cs \in 1..MaxCS, w \in Ws, pre \in Pres, ow \in BOOLEAN,
              f \in Faults, ec \in BOOLEAN, wh \in Wheres, kl \in Kills, bs \in BufSizes :
             /\ cfg = [L |-> l, CS |-> cs, W |-> w, Pre |-> pre, Ow |-> ow, FaultChunk |-> f, EmptyCentre |-> ec,
                       Where |-> wh, Kill |-> kl, Buf |-> bs]
             /\ CfgOK(cfg)
        /\ InitRest

(* CatalogWriter.__init__: what happens to the path.  Returns the new dir
   state or "ERR" when it raises. *)
InitDir ==
    CASE dir = "absent" -> "building"
      [] dir = "noparent" -> "ERR"                        \* mkdir: FileNotFoundError
      [] ~cfg.Ow -> "ERR"                                 \* FileExistsError
      [] dir = "old" -> "building"                        \* rmtree + mkdir
      [] dir = "foreign" -> IF Dev("RmtreeAnyDir") THEN "building" ELSE "ERR"
      [] dir = "file" -> "ERR"                            \* rmtree of a file: NotADirectoryError
      [] OTHER -> "ERR"

(* writer.process_patches -> PatchWriter.process_chunk: the records of a patch are appended to
   its in-memory shards; the shards are written out when they hold >= cfg.Buf records
   (Buf = 0 stands for the library's buffersize = -1: flush after every chunk) *)
Buffered(parts) == [pp \in 0..(NP - 1) |-> buf[pp] \cup { r \in parts : PatchOf(r) = pp }]
Flushes(b, pp) == Cardinality(b[pp]) >= cfg.Buf
Store(parts) ==
    LET b == Buffered(parts) IN
      /\ file' = [pp \in 0..(NP - 1) |-> IF Flushes(b, pp) THEN file[pp] \cup b[pp] ELSE file[pp]]
      /\ buf' = [pp \in 0..(NP - 1) |-> IF Flushes(b, pp) THEN {} ELSE b[pp]]
(* PatchWriter.close() of every writer (finalize): whatever is buffered reaches the file *)
FlushAll == /\ file' = [pp \in 0..(NP - 1) |-> file[pp] \cup buf[pp]]
            /\ buf' = [pp \in 0..(NP - 1) |-> {}]

(* finalize(): close files, raise for a centre without data, write patch_ids.bin *)
HasEmptyPatch == cfg.EmptyCentre \/ \E pp \in 0..(NP - 1) : { r \in Records : PatchOf(r) = pp } = {}
FinalOK == ~HasEmptyPatch \/ Dev("EmptyCentreUnnoticed")

---------------------------------------------------------------------------
(* sequential variant *)
SeqInit ==
    /\ W = 1 /\ mpc = "start"
    /\ IF InitDir = "ERR"
         THEN /\ mpc' = "raised" /\ outcome' = "raised" /\ UNCHANGED <<dir, ids>>
         ELSE /\ dir' = "building" /\ ids' = FALSE /\ mpc' = "read" /\ UNCHANGED outcome
    /\ UNCHANGED <<cfg, wpc, c, pending, q, file, buf, wexit, loaded, werr>>

SeqChunk ==
    /\ W = 1 /\ mpc = "read" /\ c <= NC /\ cfg.FaultChunk # c
    /\ Store(ChunkRecs(c))
    /\ c' = c + 1
    /\ UNCHANGED <<cfg, mpc, wpc, pending, q, dir, ids, wexit, outcome, loaded, werr>>

SeqFault ==        \* DataChunk.create raises inside the `with CatalogWriter` block
    /\ W = 1 /\ mpc = "read" /\ c <= NC /\ cfg.FaultChunk = c
    /\ mpc' = "raised" /\ outcome' = "raised"
    /\ ids' = (Dev("FinalizeOnException") /\ FinalOK)          \* __exit__ -> finalize()
    /\ dir' = IF Dev("FinalizeOnException") /\ FinalOK THEN "complete" ELSE dir
    /\ IF Dev("FinalizeOnException") THEN FlushAll ELSE UNCHANGED <<file, buf>>
    /\ UNCHANGED <<cfg, wpc, c, pending, q, wexit, loaded, werr>>

SeqFinal ==
    /\ W = 1 /\ mpc = "read" /\ c > NC
    /\ IF FinalOK
         THEN /\ ids' = TRUE /\ dir' = "complete" /\ mpc' = "load" /\ UNCHANGED outcome
         ELSE /\ mpc' = "raised" /\ outcome' = "raised" /\ UNCHANGED <<ids, dir>>
    /\ FlushAll                                  \* finalize() closes every patch writer first
    /\ UNCHANGED <<cfg, wpc, c, pending, q, wexit, loaded, werr>>

---------------------------------------------------------------------------
(* multiprocessing variant: main process *)
MStart ==
    /\ W > 1 /\ mpc = "start"
    /\ wpc' = "init" /\ mpc' = "read"
    /\ UNCHANGED <<cfg, c, pending, q, file, buf, dir, ids, wexit, outcome, loaded, werr>>

MRead ==
    /\ W > 1 /\ mpc = "read" /\ c <= NC /\ ~(cfg.FaultChunk = c /\ cfg.Where = "reader")
    /\ pending' = 1..W /\ mpc' = "map"
    /\ UNCHANGED <<cfg, wpc, c, q, file, buf, dir, ids, wexit, outcome, loaded, werr>>

WorkerFaultAt(j) == cfg.Where = "worker" /\ cfg.FaultChunk = c /\ FaultRec \in Part(c, j)

Work(j) ==         \* pool task j: split_into_patches(part) ; queue.put(patches)
    /\ mpc = "map" /\ j \in pending /\ ~WorkerFaultAt(j)
    /\ q' = Append(q, [k |-> "part", recs |-> Part(c, j)])
    /\ pending' = pending \ {j}
    /\ UNCHANGED <<cfg, mpc, wpc, c, file, buf, dir, ids, wexit, outcome, loaded, werr>>

WorkFail(j) ==     \* pool task j raises before it puts anything; the other tasks still run
    /\ mpc = "map" /\ j \in pending /\ WorkerFaultAt(j)
    /\ pending' = pending \ {j} /\ werr' = TRUE
    /\ UNCHANGED <<cfg, mpc, wpc, c, q, file, buf, dir, ids, wexit, outcome, loaded>>

MMapDone ==        \* pool.map returns, or re-raises a task's exception, once ALL tasks finished
    /\ mpc = "map" /\ pending = {}
    /\ IF werr THEN mpc' = "mapfailed" /\ UNCHANGED c
               ELSE c' = c + 1 /\ mpc' = "read"
    /\ UNCHANGED <<cfg, wpc, pending, q, file, buf, dir, ids, wexit, outcome, loaded, werr>>

MPutEOQ ==
    /\ W > 1 /\ mpc = "read" /\ c > NC
    /\ q' = Append(q, [k |-> "EOQ", recs |-> {}]) /\ mpc' = "join"
    /\ UNCHANGED <<cfg, wpc, c, pending, file, buf, dir, ids, wexit, outcome, loaded, werr>>

MFault ==          \* exception inside `with WriterProcess`: __exit__ must still end the writer
    /\ W > 1
    /\ \/ mpc = "read" /\ c <= NC /\ cfg.FaultChunk = c /\ cfg.Where = "reader"
       \/ mpc = "mapfailed"
    /\ IF Dev("NoSentinelOnError")
         THEN UNCHANGED <<wpc, wexit>>                      \* join() without sentinel
         ELSE /\ wpc' = "exited"                            \* ideal: process.terminate(), wherever it is
              /\ wexit' = IF wpc = "exited" THEN wexit ELSE 15
    /\ mpc' = "joinexc"
    /\ UNCHANGED <<cfg, c, pending, q, file, buf, dir, ids, outcome, loaded, werr>>

MJoin ==
    /\ mpc \in {"join", "joinexc"} /\ wpc = "exited"
    /\ IF mpc = "joinexc" \/ (wexit # 0 /\ ~Dev("WriterErrorVanishes"))
         THEN mpc' = "raised" /\ outcome' = "raised"
         ELSE mpc' = "load" /\ UNCHANGED outcome
    /\ UNCHANGED <<cfg, wpc, c, pending, q, file, buf, dir, ids, wexit, loaded, werr>>

---------------------------------------------------------------------------
(* multiprocessing variant: writer process *)
WInit ==
    /\ wpc = "init"
    /\ IF InitDir = "ERR"
         THEN /\ wpc' = "exited" /\ wexit' = 1 /\ UNCHANGED <<dir, ids>>
         ELSE /\ dir' = "building" /\ ids' = FALSE /\ wpc' = "get" /\ UNCHANGED wexit
    /\ UNCHANGED <<cfg, mpc, c, pending, q, file, buf, outcome, loaded, werr>>

WGet ==
    /\ wpc = "get" /\ q # <<>>
    /\ LET item == Head(q) IN
         CASE item.k = "EOQ" ->
                IF FinalOK
                  THEN /\ ids' = TRUE /\ dir' = "complete" /\ wpc' = "exited" /\ FlushAll /\ UNCHANGED wexit
                  ELSE /\ wpc' = "exited" /\ wexit' = 1 /\ FlushAll /\ UNCHANGED <<ids, dir>>
           [] item.k = "part" /\ cfg.Where = "writer" /\ cfg.FaultChunk > 0 /\ FaultRec \in item.recs ->
                \* process_patches raises: CatalogWriter.__exit__ must not finalise, the process dies
                /\ wpc' = "exited" /\ wexit' = 1
                /\ ids' = (Dev("FinalizeOnException") /\ FinalOK)
                /\ dir' = IF Dev("FinalizeOnException") /\ FinalOK THEN "complete" ELSE dir
                /\ IF Dev("FinalizeOnException") THEN FlushAll ELSE UNCHANGED <<file, buf>>
           [] OTHER ->
                /\ Store(item.recs) /\ UNCHANGED <<wpc, wexit, ids, dir>>
    /\ q' = Tail(q)
    /\ UNCHANGED <<cfg, mpc, c, pending, outcome, loaded, werr>>

(* environment: the writer process is killed by a signal *)
WKill ==
    /\ \/ cfg.Kill = "init" /\ wpc = "init"
       \/ cfg.Kill = "get" /\ wpc = "get"
    /\ wpc' = "exited" /\ wexit' = 9
    /\ UNCHANGED <<cfg, mpc, c, pending, q, file, buf, dir, ids, outcome, loaded, werr>>

---------------------------------------------------------------------------
(* load_patches: open whatever is at the path *)
Load ==
    /\ mpc = "load"
    /\ IF ids
         THEN /\ loaded' = (IF dir = "old" THEN "old" ELSE "new")
              /\ outcome' = "success" /\ mpc' = "done"
         ELSE /\ outcome' = "raised" /\ mpc' = "raised" /\ UNCHANGED loaded    \* patch info file not found
    /\ UNCHANGED <<cfg, wpc, c, pending, q, file, buf, dir, ids, wexit, werr>>

Done == mpc \in {"done", "raised"}

SomeWork == \E j \in 1..2 : Work(j)
SomeWork3 == \E j \in 3..4 : Work(j)
SomeWorkFail == \E j \in 1..4 : WorkFail(j)

Next == \/ SeqInit \/ SeqChunk \/ SeqFault \/ SeqFinal
        \/ MStart \/ MRead \/ SomeWork \/ SomeWork3 \/ SomeWorkFail \/ MMapDone \/ MPutEOQ \/ MFault \/ MJoin
        \/ WInit \/ WGet \/ WKill \/ Load
        \/ (Done /\ UNCHANGED vars)

Spec == Init /\ [][Next]_vars /\ WF_vars(Next)

---------------------------------------------------------------------------
Exact == \A pp \in 0..(NP - 1) : file[pp] = { r \in Records : PatchOf(r) = pp }
InitDirAtStart ==      \* what __init__ does with the path as found
    CASE cfg.Pre = "absent" -> "building"
      [] cfg.Pre = "noparent" -> "ERR"
      [] ~cfg.Ow -> "ERR"
      [] cfg.Pre = "old" -> "building"
      [] OTHER -> "ERR"                                   \* foreign dir or file: must raise

Faulty == cfg.FaultChunk > 0 \/ HasEmptyPatch \/ InitDirAtStart = "ERR" \/ wexit = 9

(* C02: a successful creation stored every record exactly once in its patch,
   whatever chunk size, worker count and schedule *)
ExactOnSuccess == (outcome = "success") => (Exact /\ loaded = "new")
(* C09: exact catalog or an exception ... *)
FailStop == Done => (IF Faulty THEN outcome = "raised" ELSE outcome = "success" /\ Exact)
(* ... never a hang (TLC deadlock check + this liveness property) *)
Termination == <>Done
(* nothing is written twice and nothing is silently dropped while the writer is alive:
   what was handed to the writer is in a file or in its buffer *)
BufferedOrWritten == (outcome = "success") => \A pp \in 0..(NP - 1) : buf[pp] = {}
(* ... a pre-existing path is untouched unless overwriting a catalog was requested *)
UntouchedWithoutOverwrite ==
    (cfg.Pre \in {"old", "foreign", "file"} /\ ~cfg.Ow) => dir = cfg.Pre
OnlyCatalogsDeleted == (cfg.Pre \in {"foreign", "file"}) => dir = cfg.Pre
(* ... and a failed creation leaves nothing that opens as a valid catalog
   (an old catalog that was not to be overwritten stays, of course) *)
NoOpenableDirAfterFailure == (outcome = "raised" /\ dir # "old") => ~ids

TypeOK == /\ c \in 1..(NC + 1) /\ pending \subseteq 1..4 /\ werr \in BOOLEAN
          /\ \A pp \in 0..(NP - 1) : file[pp] \subseteq Records /\ buf[pp] \subseteq Records /\ file[pp] \cap buf[pp] = {}
          /\ \A pp \in 0..(NP - 1) : cfg.Buf > 0 => Cardinality(buf[pp]) < cfg.Buf

PrintDone == Done => PrintT(<<"done", cfg, outcome, loaded, dir, ids, wexit = 9>>)
=============================================================================
