------------------------------ MODULE CreateMPI ------------------------------
(***************************************************************************)
(* catalog/catalog.py, MPI variant of write_patches:                       *)
(*                                                                         *)
(*   max_workers = get_size(max_workers); < 2 -> ValueError on every rank  *)
(*   (a reader alone on its node cannot pick a writer either: modelled as  *)
(*   the same rejection)                                                   *)
(*   WorkerManager: active = first max_workers ranks on the reader's node, *)
(*                  writer = (active \ {reader}).pop(), workers = rest     *)
(*   writer : with CatalogWriter(...):                                     *)
(*               while (p := recv(ANY_SOURCE, tag 1)) is not EndOfQueue:   *)
(*                   writer.process_patches(p)                             *)
(*   worker : for chunk in reader:            (reader = rank 0 reads)      *)
(*               part = scatter (reader: send(split, j, tag 2) to every    *)
(*                               other worker; others: recv(0, tag 2))     *)
(*               COMM.send(split_into_patches(part), writer, tag 1)        *)
(*            COMM.send(EndOfQueue, writer, tag 1)      <- ideal / fixed   *)
(*            worker_comm.Barrier()                                        *)
(*   reader : COMM.send(EndOfQueue, writer, tag 1)      <- code as found   *)
(*   all    : COMM.Barrier()                                               *)
(*                                                                         *)
(* Deviation "SingleRootEOQ" (the code as found): only the reader sends    *)
(* one EndOfQueue, after the workers' barrier.  MPI orders messages per    *)
(* sender only, and a barrier does not flush other ranks' buffered sends,  *)
(* so the writer's wildcard receive may match the reader's EndOfQueue      *)
(* BEFORE another worker's last Patches message: records are lost.  The    *)
(* ideal design lets every worker send its own EndOfQueue after its last   *)
(* Patches (same FIFO => ordered) and the writer waits for all of them.    *)
(***************************************************************************)
EXTENDS MPISem, TLC

CONSTANTS Size, MaxWorkers, NC, SendModes, RemoteRanks, Deviations

VARIABLES pc, ret, chan, writer, chunk, jsend, got, eoqs, wbar, gbar

vars == <<pc, ret, chan, writer, chunk, jsend, got, eoqs, wbar, gbar>>

Ranks == 0..(Size - 1)
Min(a, b) == IF a < b THEN a ELSE b
MW == IF MaxWorkers = 0 THEN Size ELSE Min(MaxWorkers, Size)
(* ranks_on_same_node(reader, max_workers): the first MW ranks that share the reader's node *)
SameNode == Ranks \ RemoteRanks
Active == { r \in SameNode : Cardinality({ q \in SameNode : q < r }) < MW }
Reader == 0
Workers == Active \ {writer}                 \* includes the reader
Others == Workers \ {Reader}
OneEOQ == "SingleRootEOQ" \in Deviations
(* after its last Patches a worker signals the writer itself (ideal), or goes
   straight to the workers' barrier (code as found) *)
AfterLast == IF OneEOQ THEN "wbarrier" ELSE "eoq"

Init == /\ chan = EmptyChan(Ranks)
        /\ ret = [r \in Ranks |-> "none"]
        /\ chunk = [r \in Ranks |-> 1]
        /\ jsend = 1
        /\ got = {} /\ eoqs = 0 /\ wbar = {} /\ gbar = {}
        /\ IF MW < 2 \/ Cardinality(Active) < 2
             THEN /\ writer = 0
                  /\ pc = [r \in Ranks |-> "raised"]
             ELSE /\ writer \in (Active \ {Reader})          \* set.pop(): any
                  /\ pc = [r \in Ranks |->
                             IF r \notin Active THEN "gbarrier"
                             ELSE IF r = writer THEN "w_recv"
                             ELSE IF NC = 0 THEN AfterLast ELSE "scatter"]

Send(r, d, tag, cls, arg, after) ==
    \E mode \in SendModes :
        /\ chan' = Enq(chan, r, d, Msg(tag, cls, arg, mode = "sync"))
        /\ IF mode = "sync"
             THEN pc' = [pc EXCEPT ![r] = "swait"] /\ ret' = [ret EXCEPT ![r] = after]
             ELSE pc' = [pc EXCEPT ![r] = after] /\ UNCHANGED ret

SyncDone(r) ==
    /\ pc[r] = "swait" /\ ~SyncPending(chan, r)
    /\ pc' = [pc EXCEPT ![r] = ret[r]]
    /\ UNCHANGED <<ret, chan, writer, chunk, jsend, got, eoqs, wbar, gbar>>

(* the j-th other worker in rank order *)
OtherAt(j) == CHOOSE r \in Others : Cardinality({ q \in Others : q < r }) = j - 1

(* reader: scatter_data_chunk sends one split to every other worker *)
ReaderScatter ==
    /\ pc[Reader] = "scatter" /\ jsend <= Cardinality(Others)
    /\ Send(Reader, OtherAt(jsend), 2, "Split", chunk[Reader],
            IF jsend = Cardinality(Others) THEN "patches" ELSE "scatter")
    /\ jsend' = jsend + 1
    /\ UNCHANGED <<writer, chunk, got, eoqs, wbar, gbar>>

ReaderScatterNone ==      \* a reader without fellow workers keeps the whole chunk
    /\ pc[Reader] = "scatter" /\ Cardinality(Others) = 0
    /\ pc' = [pc EXCEPT ![Reader] = "patches"]
    /\ UNCHANGED <<ret, chan, writer, chunk, jsend, got, eoqs, wbar, gbar>>

WorkerGetSplit(r) ==
    /\ r \in Others /\ pc[r] = "scatter" /\ HasMatch(chan, Reader, r, 2)
    /\ Assert(Matched(chan, Reader, r, 2).arg = chunk[r], "split of another chunk")
    /\ chan' = Deq(chan, Reader, r, 2)
    /\ pc' = [pc EXCEPT ![r] = "patches"]
    /\ UNCHANGED <<ret, writer, chunk, jsend, got, eoqs, wbar, gbar>>

(* every worker sends its patch dictionary of this chunk to the writer *)
SendPatches(r) ==
    /\ r \in Workers /\ pc[r] = "patches"
    /\ Send(r, writer, 1, "Patches", <<chunk[r], r>>,
            IF chunk[r] = NC THEN AfterLast ELSE "scatter")
    /\ chunk' = [chunk EXCEPT ![r] = @ + 1]
    /\ jsend' = IF r = Reader THEN 1 ELSE jsend
    /\ UNCHANGED <<writer, got, eoqs, wbar, gbar>>

WBarrierArrive(r) ==
    /\ r \in Workers /\ pc[r] = "wbarrier"
    /\ wbar' = wbar \cup {r}
    /\ pc' = [pc EXCEPT ![r] = "wbwait"]
    /\ UNCHANGED <<ret, chan, writer, chunk, jsend, got, eoqs, gbar>>

WBarrierPass(r) ==
    /\ r \in Workers /\ pc[r] = "wbwait" /\ wbar = Workers
    /\ pc' = [pc EXCEPT ![r] = IF OneEOQ /\ r = Reader THEN "eoq" ELSE "gbarrier"]
    /\ UNCHANGED <<ret, chan, writer, chunk, jsend, got, eoqs, wbar, gbar>>

SendEOQ(r) ==
    /\ r \in Workers /\ pc[r] = "eoq"
    /\ Send(r, writer, 1, "EOQ", 0, IF OneEOQ THEN "gbarrier" ELSE "wbarrier")
    /\ UNCHANGED <<writer, chunk, jsend, got, eoqs, wbar, gbar>>

(* writer: wildcard receive *)
WriterRecv(s) ==
    /\ pc[writer] = "w_recv" /\ s \in Sources(chan, Ranks, writer, 1)
    /\ LET m == Matched(chan, s, writer, 1) IN
         IF m.cls = "EOQ"
           THEN /\ eoqs' = eoqs + 1
                /\ pc' = [pc EXCEPT ![writer] =
                            IF OneEOQ \/ eoqs + 1 = Cardinality(Workers) THEN "w_final" ELSE "w_recv"]
                /\ UNCHANGED got
           ELSE /\ got' = got \cup {m.arg}
                /\ UNCHANGED <<eoqs, pc>>
    /\ chan' = Deq(chan, s, writer, 1)
    /\ UNCHANGED <<ret, writer, chunk, jsend, wbar, gbar>>

WriterFinalize ==      \* CatalogWriter.__exit__ -> finalize(): close files, write patch_ids.bin
    /\ pc[writer] = "w_final"
    /\ pc' = [pc EXCEPT ![writer] = "gbarrier"]
    /\ UNCHANGED <<ret, chan, writer, chunk, jsend, got, eoqs, wbar, gbar>>

GBarrierArrive(r) ==
    /\ pc[r] = "gbarrier"
    /\ gbar' = gbar \cup {r}
    /\ pc' = [pc EXCEPT ![r] = "gbwait"]
    /\ UNCHANGED <<ret, chan, writer, chunk, jsend, got, eoqs, wbar>>

GBarrierPass(r) ==
    /\ pc[r] = "gbwait" /\ gbar = Ranks
    /\ pc' = [pc EXCEPT ![r] = "done"]
    /\ UNCHANGED <<ret, chan, writer, chunk, jsend, got, eoqs, wbar, gbar>>

Done == \A r \in Ranks : pc[r] \in {"done", "raised"}

SomeSyncDone == \E r \in Ranks : SyncDone(r)
SomeWorkerGetSplit == \E r \in Ranks : WorkerGetSplit(r)
SomeSendPatches == \E r \in Ranks : SendPatches(r)
SomeWBarrierArrive == \E r \in Ranks : WBarrierArrive(r)
SomeWBarrierPass == \E r \in Ranks : WBarrierPass(r)
SomeSendEOQ == \E r \in Ranks : SendEOQ(r)
SomeWriterRecv == \E s \in Ranks : WriterRecv(s)
SomeGBarrierArrive == \E r \in Ranks : GBarrierArrive(r)
SomeGBarrierPass == \E r \in Ranks : GBarrierPass(r)

Next == \/ ReaderScatter \/ ReaderScatterNone \/ SomeWorkerGetSplit \/ SomeSendPatches
        \/ SomeWBarrierArrive \/ SomeWBarrierPass \/ SomeSendEOQ
        \/ SomeWriterRecv \/ WriterFinalize \/ SomeSyncDone
        \/ SomeGBarrierArrive \/ SomeGBarrierPass
        \/ (Done /\ UNCHANGED vars)

Spec == Init /\ [][Next]_vars /\ WF_vars(Next)

---------------------------------------------------------------------------
AllParts == { <<c, r>> : c \in 1..NC, r \in Workers }

Termination == <>Done

(* C06: no record is lost between reader, workers and writer: when the     *)
(* writer closes the catalog it has received every part of every chunk     *)
NoRecordLost ==
    (MW >= 2 /\ Cardinality(Active) >= 2 /\ pc[writer] \in {"w_final", "gbarrier", "gbwait", "done"}) => got = AllParts

NoLeftover == Done => AllEmpty(chan)

Rejects == (MW < 2) => Done        \* "requires at least two workers" on every rank

TypeOK == /\ got \subseteq AllParts
          /\ eoqs \in 0..Size
=============================================================================
