----------------------------- MODULE RandomWindow -----------------------------
(***************************************************************************)
(* Footprint and equal-area law of BoxRandoms (C16, clauses "all inside    *)
(* the requested window" and "uniformly distributed in area").             *)
(*                                                                         *)
(* Code (randoms.py)                      action here                      *)
(*   BoxRandoms.__init__ / _sky2cylinder  Sky2Cylinder  x = ra, y = sin dec *)
(*   BoxRandoms._draw_coords (rng.uniform) DrawCylinder  uniform on the     *)
(*                                          rectangle [x1,x2] x [y1,y2]    *)
(*   BoxRandoms._cylinder2sky             Cylinder2Sky  ra = x,            *)
(*                                          dec = arcsin y                 *)
(*                                                                         *)
(* Everything is exact integer arithmetic: declinations are taken from     *)
(* {-90,-30,0,30,90} whose sines are {-1,-1/2,0,1/2,1}; the model works    *)
(* with Sin2(d) = 2 sin d.  The window is cut into the cells spanned by    *)
(* consecutive grid values; the probability mass the sampler puts into a   *)
(* cell is a rational <<num, den>>.  The area of a cell on the unit sphere *)
(* is (ra_b - ra_a) * (sin d_b - sin d_a)  (Archimedes), so                *)
(*      UniformInArea:  mass(c1) * area(c2) = mass(c2) * area(c1).         *)
(* TLC prints, per window, the cells with their exact expected fraction;   *)
(* the driver draws points from the real generator, demands that every     *)
(* point is inside the window (exact) and compares the empirical cell      *)
(* fractions with the rationals (statistical, gross deviations only).      *)
(*                                                                         *)
(* Deviation "UniformInDec": the declination itself is drawn uniformly     *)
(* (no cylindrical projection) - the textbook mistake.                     *)
(***************************************************************************)
EXTENDS Integers, FiniteSets, TLC

CONSTANTS RaGrid,      \* right ascensions in degrees (any integers, may be < 0 or > 360)
          DecGrid,     \* subset of {-90, -30, 0, 30, 90}
          Deviations

VARIABLES win,     \* [ra1, ra2, d1, d2]  requested window (degrees)
          stage,   \* "new" | "cyl" | "drawn" | "sky"
          rect,    \* cylinder rectangle [x1, x2, y1, y2]
          mass     \* cell -> numerator of the probability mass (denominator = Total)

vars == <<win, stage, rect, mass>>

Sin2(d) == CASE d = -90 -> -2 [] d = -30 -> -1 [] d = 0 -> 0 [] d = 30 -> 1 [] d = 90 -> 2

(* the vertical cylinder coordinate (in half units) the sampler uses *)
Y(d) == IF "UniformInDec" \in Deviations THEN d \div 30 ELSE Sin2(d)

Succ(S, a) == CHOOSE b \in S : b > a /\ \A c \in S : c > a => c >= b

RaIn  == {a \in RaGrid : win.ra1 <= a /\ a <= win.ra2}
DecIn == {d \in DecGrid : win.d1 <= d /\ d <= win.d2}

(* cells <<ra_a, ra_b, d_a, d_b>> between consecutive grid values inside the window *)
Cells == {<<a, Succ(RaIn, a), d, Succ(DecIn, d)>> : a \in RaIn \ {win.ra2}, d \in DecIn \ {win.d2}}

Area(c)  == (c[2] - c[1]) * (Sin2(c[4]) - Sin2(c[3]))
Total    == (rect.x2 - rect.x1) * (rect.y2 - rect.y1)

Init == /\ win \in {[ra1 |-> a, ra2 |-> b, d1 |-> d, d2 |-> e] :
                        a \in RaGrid, b \in RaGrid, d \in DecGrid, e \in DecGrid}
        /\ win.ra1 < win.ra2 /\ win.d1 < win.d2
        /\ stage = "new"
        /\ rect = [x1 |-> 0, x2 |-> 0, y1 |-> 0, y2 |-> 0]
        /\ mass = [c \in {} |-> 0]

Sky2Cylinder ==
    /\ stage = "new"
    /\ rect' = [x1 |-> win.ra1, x2 |-> win.ra2, y1 |-> Y(win.d1), y2 |-> Y(win.d2)]
    /\ stage' = "cyl"
    /\ UNCHANGED <<win, mass>>

(* uniform density on the rectangle: a sub-rectangle gets its share of the area *)
DrawCylinder ==
    /\ stage = "cyl"
    /\ mass' = [c \in Cells |-> (c[2] - c[1]) * (Y(c[4]) - Y(c[3]))]
    /\ stage' = "drawn"
    /\ UNCHANGED <<win, rect>>

(* arcsin is monotone: the cylinder band [Y(d_a), Y(d_b)] is the sky band [d_a, d_b] *)
Cylinder2Sky ==
    /\ stage = "drawn"
    /\ stage' = "sky"
    /\ UNCHANGED <<win, rect, mass>>

Done == stage = "sky"

Next == Sky2Cylinder \/ DrawCylinder \/ Cylinder2Sky \/ (Done /\ UNCHANGED vars)

Spec == Init /\ [][Next]_vars /\ WF_vars(Next)

RECURSIVE SumMass(_)
SumMass(S) == IF S = {} THEN 0 ELSE LET c == CHOOSE x \in S : TRUE IN mass[c] + SumMass(S \ {c})

(* all probability mass lies inside the requested window *)
InsideWindow == Done => SumMass(Cells) = Total

(* constant density per unit area of the sphere *)
UniformInArea ==
    Done => \A c1 \in Cells, c2 \in Cells : mass[c1] * Area(c2) = mass[c2] * Area(c1)

TypeOK == /\ stage \in {"new", "cyl", "drawn", "sky"}
          /\ (stage \in {"drawn", "sky"} => DOMAIN mass = Cells)

Termination == <>Done

PrintDone == Done => PrintT(<<"window", win, {<<c, mass[c], Total>> : c \in Cells}>>)
=============================================================================
