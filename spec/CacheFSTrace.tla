---------------------------- MODULE CacheFSTrace ----------------------------
(***************************************************************************)
(* Trace validation for CacheFS: file-system syscalls recorded with strace *)
(* while the REAL library rebuilds the trees of one patch / creates a      *)
(* catalog, projected onto abstract events by harness/fstrace.py, must be  *)
(* a behaviour of the specification (this pins the ORDER of file           *)
(* operations the crash-safety argument rests on).                         *)
(*   trees   events: unlink_marker open_trees wpart wlast open_marker      *)
(*                   wbyte wedges close                                    *)
(*   catalog events: rm_ids rm_data rm_patchdir rm_root mk_root mk_patch   *)
(*                   open_data append open_ids write_ids rename_ids close  *)
(*                   (+ meta/other: not part of the protocol, skipped)     *)
(***************************************************************************)
EXTENDS CacheFS, Json, IOUtils, TLCExt

Traces == ndJsonDeserialize(IOEnv.TRACE_FILE)

VARIABLES tid, l
ttvars == <<vars, tid, l>>

TR == Traces[tid].events
Ev == TR[l + 1]
T0(b) == IF b = "absent" THEN T("absent", "N") ELSE T("full", b)

TInit == /\ tid \in 1..Len(Traces) /\ l = 0
         /\ TLCSet(tid, 0) /\ TLCSet(1000 + tid, FALSE)
         /\ crashed = FALSE /\ used = U("none", "N", "N") /\ builds = 0
         /\ opened = O("none", "absent", FALSE) /\ readback = RB("none", "absent", "absent")
         /\ rfile = [f \in {"dat", "smp", "cov"} |-> "absent"] /\ rstep = 0
         /\ IF Workload = "trees"
              THEN /\ marker = Traces[tid].marker0
                   /\ trees = T0(Traces[tid].trees0)
                   /\ req = Traces[tid].req
                   /\ step = IF Dev("StaleMarkerDuringRebuild") \/ Traces[tid].marker0 = "absent" THEN 2 ELSE 1
                   /\ root = "absent" /\ pdata = [p \in Patches |-> "absent"] /\ pgen = [p \in Patches |-> 0]
                   /\ ids = "absent" /\ cstep = 0
              ELSE /\ marker = "absent" /\ trees = T("absent", "N") /\ req = "N" /\ step = 0
                   /\ IF Traces[tid].old
                        THEN /\ root = "dir" /\ pdata = [p \in Patches |-> "full"] /\ pgen = [p \in Patches |-> 1]
                             /\ ids = "g1" /\ cstep = 1
                        ELSE /\ root = "absent" /\ pdata = [p \in Patches |-> "absent"] /\ pgen = [p \in Patches |-> 0]
                             /\ ids = "absent" /\ cstep = 2

Consume == l < Len(TR) /\ l' = l + 1 /\ UNCHANGED tid
Silent == UNCHANGED <<tid, l>>
Is(k) == l < Len(TR) /\ Ev.ev = k

TTree == \/ Consume /\ Is("unlink_marker") /\ UnlinkMarker
         \/ Consume /\ Is("open_trees") /\ OpenTrees
         \/ Consume /\ Is("wpart") /\ step = 3 /\ WriteTreesPart
         \/ Consume /\ Is("wpart") /\ step = 4 /\ UNCHANGED vars          \* further partial writes
         \/ Consume /\ Is("wlast") /\ WriteTreesRest
         \/ Consume /\ Is("open_marker") /\ OpenMarker
         \/ Consume /\ Is("wbyte") /\ WriteMarkerByte
         \/ Consume /\ Is("wedges") /\ req # "N" /\ WriteMarkerEdges
         \/ Consume /\ Is("close") /\ UNCHANGED vars
         \/ Silent /\ req = "N" /\ WriteMarkerEdges                       \* no edges to write for unbinned trees

TCat == \/ Consume /\ Is("rm_ids") /\ RmIds
        \/ Consume /\ Is("rm_data") /\ RmPatchData(Ev.patch)
        \/ Consume /\ Is("rm_patchdir") /\ RmPatchDir(Ev.patch)
        \/ Consume /\ Is("rm_root") /\ RmRoot
        \/ Consume /\ Is("mk_root") /\ MkRoot
        \/ Consume /\ Is("mk_patch") /\ MkPatch(Ev.patch)
        \/ Consume /\ Is("open_data") /\ OpenData(Ev.patch)
        \/ Consume /\ Is("append") /\ AppendData(Ev.patch)
        \/ Consume /\ Is("open_ids") /\ OpenIds
        \/ Consume /\ Is("write_ids") /\ WriteIds
        \/ Consume /\ Is("rename_ids") /\ RenameIds
        \/ Consume /\ Ev.ev \in {"close", "skip"} /\ UNCHANGED vars

TNext == IF Workload = "trees" THEN TTree ELSE TCat
TSpec == TInit /\ [][TNext]_ttvars

Finished == IF Workload = "trees" THEN step = 0 /\ marker = req /\ trees = T("full", req)
            ELSE cstep = 6 /\ ids = "g2" /\ \A p \in Patches : pdata[p] = "full" /\ pgen[p] = 2

Progress == /\ TLCSet(tid, IF l > TLCGet(tid) THEN l ELSE TLCGet(tid))
            /\ ((l = Len(TR) /\ Finished) => TLCSet(1000 + tid, TRUE))

Post == PrintT(<<"verdict", [i \in 1..Len(Traces) |-> <<TLCGet(i), TLCGet(1000 + i)>>]>>)
=============================================================================
