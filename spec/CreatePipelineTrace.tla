------------------------ MODULE CreatePipelineTrace ------------------------
(***************************************************************************)
(* Trace validation for CreatePipeline (code -> spec).  The events are     *)
(* recorded by the deterministic multiprocessing runtime while the REAL    *)
(* Catalog.from_dataframe (write_patches: WriterProcess, ChunkProcessing-  *)
(* Task, CatalogWriter) runs; the runtime is cooperative, so its log is a  *)
(* true linear order and every event is written in the same step as the    *)
(* state change it reports (queue append/pop, process start/exit/kill).    *)
(*                                                                         *)
(*   spawn      main   Process.start()                  -> MStart          *)
(*   mapcall    main   pool.map(task, parts) called     -> MRead           *)
(*   put dict   pool   task j put its patches (record ids logged, and the  *)
(*                     ids that went to patch 0)        -> Work(j)         *)
(*   taskerr    pool   task j raised (nothing put)      -> WorkFail(j)     *)
(*   mapret     main   pool.map returned / re-raised    -> MMapDone        *)
(*   put EOQ    main                                    -> MPutEOQ         *)
(*   terminate  main   WriterProcess.__exit__ on error  -> MFault          *)
(*   join       main   (exit code logged)               -> MJoin           *)
(*   get        writer queue.get() (item logged)        -> WGet            *)
(*   exit       writer (exit code logged)               -> state check     *)
(*   oomkill    env    the writer process is SIGKILLed  -> WKill           *)
(*   final      harness: outcome, what the path opens as, directory        *)
(*              state                                   -> terminal state  *)
(* Not observable without hooks in the library, hence silent steps that    *)
(* TLC places: WInit (CatalogWriter.__init__ inside the writer process),   *)
(* Load, and the whole sequential variant (max_workers = 1).  Each silent  *)
(* step is allowed only directly before an event that needs it, so the     *)
(* trace spec stays finite.                                                *)
(***************************************************************************)
EXTENDS CreatePipeline, Json, IOUtils, TLCExt

Traces == ndJsonDeserialize(IOEnv.TRACE_FILE)

VARIABLES tid, li
tvars == <<vars, tid, li>>

T == Traces[tid].events
M == Traces[tid].cfg
Ev == T[li + 1]
SetOf(s) == { s[i] : i \in DOMAIN s }

TInit == /\ tid \in 1..Len(Traces) /\ li = 0
         /\ cfg = [L |-> M.L, CS |-> M.CS, W |-> M.W, Pre |-> M.Pre, Ow |-> M.Ow,
                   FaultChunk |-> M.FaultChunk, EmptyCentre |-> M.EmptyCentre, Where |-> M.Where,
                   Kill |-> M.Kill, Buf |-> M.Buf]
         /\ CfgOK(cfg) /\ InitRest
         /\ TLCSet(tid, 0) /\ TLCSet(1000000 + tid, FALSE)

More == li < Len(T)
Consume == More /\ li' = li + 1 /\ UNCHANGED tid
Silent == More /\ UNCHANGED <<tid, li>>

TSpawn == Consume /\ Ev.ev = "spawn" /\ MStart
TMapCall == Consume /\ Ev.ev = "mapcall" /\ Ev.nt = W /\ MRead
TWork == /\ Consume /\ Ev.ev = "put" /\ Ev.cls = "dict"
         /\ \E j \in 1..W : Part(c, j) = SetOf(Ev.recs) /\ Work(j)
         /\ (~cfg.EmptyCentre => SetOf(Ev.p0) = { r \in SetOf(Ev.recs) : PatchOf(r) = 0 })
TWorkFail == /\ Consume /\ Ev.ev = "taskerr" /\ SomeWorkFail
TMapRet == Consume /\ Ev.ev = "mapret" /\ MMapDone /\ Ev.failed = werr
TPutEOQ == Consume /\ Ev.ev = "put" /\ Ev.cls = "EndOfQueue" /\ MPutEOQ
TTerminate == /\ Consume /\ Ev.ev = "terminate" /\ MFault
              /\ Ev.alive = (wpc # "exited")
TKill == Consume /\ Ev.ev = "oomkill" /\ WKill
TJoin == /\ Consume /\ Ev.ev = "join" /\ MJoin
         /\ Ev.code = (IF wexit \in {9, 15} THEN 0 - wexit ELSE wexit)
TGet == /\ Consume /\ Ev.ev = "get" /\ q # <<>>
        /\ IF Ev.cls = "EndOfQueue" THEN Head(q).k = "EOQ"
           ELSE Head(q).k = "part" /\ Head(q).recs = SetOf(Ev.recs)
        /\ WGet
TExit == /\ Consume /\ Ev.ev = "exit" /\ wpc = "exited" /\ wexit = Ev.code
         /\ UNCHANGED vars
TFinal == /\ Consume /\ Ev.ev = "final" /\ Done
          /\ outcome = Ev.outcome /\ loaded = Ev.loaded /\ dir = Ev.dir /\ ids = Ev.ids
          /\ UNCHANGED vars
(* runtime bookkeeping without a CreatePipeline action: the writer task's  *)
(* first step, and the pool used by load_patches afterwards                *)
TSkip == Consume /\ Ev.ev \in {"start", "imap"} /\ UNCHANGED vars

TSilentWInit == Silent /\ Ev.ev \in {"get", "exit", "terminate", "oomkill"} /\ WInit
TSilentLoad == Silent /\ Ev.ev = "final" /\ Load
TSilentSeq == Silent /\ Ev.ev = "final" /\ (SeqInit \/ SeqChunk \/ SeqFault \/ SeqFinal)

TNext == \/ TSpawn \/ TMapCall \/ TWork \/ TWorkFail \/ TMapRet \/ TPutEOQ \/ TTerminate \/ TJoin
         \/ TGet \/ TExit \/ TKill \/ TFinal \/ TSkip
         \/ TSilentWInit \/ TSilentLoad \/ TSilentSeq

TSpec == TInit /\ [][TNext]_tvars

Progress == /\ TLCSet(tid, IF li > TLCGet(tid) THEN li ELSE TLCGet(tid))
            /\ ((li = Len(T) /\ Done) => TLCSet(1000000 + tid, TRUE))

Post == PrintT(<<"verdict", [i \in 1..Len(Traces) |-> <<TLCGet(i), TLCGet(1000000 + i)>>]>>)
=============================================================================
