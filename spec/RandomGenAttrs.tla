--------------------------- MODULE RandomGenAttrs ---------------------------
(***************************************************************************)
(* Random catalogs: the JOINT attribute draw (C16: "weights and redshifts  *)
(* drawn jointly (same source row) from the supplied samples").            *)
(*                                                                         *)
(* Code                                   action / operator here           *)
(* -------------------------------------  -------------------------------- *)
(* randoms.py  RandomsBase.__init__       Store: self.weights =            *)
(*                                          np.asarray(weights); same for  *)
(*                                          redshifts (BOTH cast to arrays)*)
(*             _draw_attributes(n):                                        *)
(*               idx = rng.integers(0, n) DrawIndex(i)  one index for both *)
(*               self.weights[idx]        LookupW                          *)
(*               self.redshifts[idx]      LookupZ                          *)
(*                                                                         *)
(* The user may pass each sample set in any CONTAINER:                     *)
(*   "ndarray"      numpy array (any dtype)                                *)
(*   "series"       pandas Series, default RangeIndex                      *)
(*   "series_perm"  pandas Series whose integer index is a permutation of  *)
(*                  0..n-1 (column of a sorted / shuffled data frame       *)
(*                  without reset_index); sc.ix[p] = label at position p   *)
(*   "series_other" pandas Series whose index is not 0..n-1 at all         *)
(*                  (filtered frame, string labels)                        *)
(*   "list", "tuple" Python sequences                                      *)
(* and the two sets need not come in the same container.  A source table   *)
(* has the positions 1..NRows.  The property: the weight and the redshift  *)
(* of a drawn point come from the same POSITION of the tables as passed (a *)
(* source row), for every container, and no draw is refused.               *)
(* The design: both sets are converted to arrays at construction, both     *)
(* lookups go by position.  What `values[idx]` does on the object AS       *)
(* PASSED depends on the container: position (ndarray, series), LABEL      *)
(* (series_perm), KeyError (series_other), TypeError (list, tuple).        *)
(*                                                                         *)
(* Every case (containers, index labels, drawn index) is printed with the  *)
(* positions the two lookups hit; the driver evaluates it on the real      *)
(* BoxRandoms / HealPixRandoms.                                            *)
(*                                                                         *)
(* Deviations:                                                             *)
(*   "LookupAsPassed"             both sets stored as passed (code before  *)
(*                                fix R3): mixed containers pair a weight  *)
(*                                by label with a redshift by position;    *)
(*                                lists / other indices raise at the draw  *)
(*   "WeightsCastAtConstruction"  only the weights are converted, the      *)
(*                                redshifts stay as passed  (seed C16-K)   *)
(***************************************************************************)
EXTENDS Naturals, Sequences, FiniteSets, TLC

CONSTANTS NRows,        \* rows of the source table
          Containers,   \* subset of {"ndarray", "series", "series_perm", "series_other", "list", "tuple"}
          Deviations

VARIABLES sc,     \* [cw: container of the weights, cz: container of the redshifts, ix: index labels by position]
          stw,    \* how self.weights is stored: a container kind
          stz,    \* how self.redshifts is stored
          idx,    \* the drawn index (0: not drawn yet)
          pw,     \* position of the table the weight lookup hit (0: not yet / raised)
          pz,     \* position the redshift lookup hit
          err,    \* exception raised by the draw: none | KeyError | TypeError
          pc      \* new | stored | drawn | w | done

vars == <<sc, stw, stz, idx, pw, pz, err, pc>>

Dev(d) == d \in Deviations

Rows     == 1..NRows
Identity == [p \in Rows |-> p]
Perms    == {f \in [Rows -> Rows] : \A p, q \in Rows : p # q => f[p] # f[q]}

(* index labels matter for "series_perm" only (one frame: the same labels for both columns) *)
IndexLabels(cw, cz) == IF "series_perm" \in {cw, cz} THEN Perms \ {Identity} ELSE {Identity}

(* values[i] on an object stored as container kind c: the position hit, or the exception *)
Raises(c)        == IF c = "series_other" THEN "KeyError" ELSE IF c \in {"list", "tuple"} THEN "TypeError" ELSE "none"
Lookup(c, ix, i) == IF c = "series_perm" THEN CHOOSE p \in Rows : ix[p] = i ELSE i

Init == /\ sc \in [cw : Containers, cz : Containers, ix : Perms]
        /\ sc.ix \in IndexLabels(sc.cw, sc.cz)
        /\ stw = "none" /\ stz = "none"
        /\ idx = 0 /\ pw = 0 /\ pz = 0
        /\ err = "none"
        /\ pc = "new"

Store ==                    \* RandomsBase.__init__: np.asarray(weights), np.asarray(redshifts)
    /\ pc = "new"
    /\ stw' = IF Dev("LookupAsPassed") THEN sc.cw ELSE "ndarray"
    /\ stz' = IF Dev("LookupAsPassed") \/ Dev("WeightsCastAtConstruction") THEN sc.cz ELSE "ndarray"
    /\ pc' = "stored"
    /\ UNCHANGED <<sc, idx, pw, pz, err>>

DrawIndex(i) ==             \* idx = self.rng.integers(0, self.data_size, size=probe_size), one element of it
    /\ pc = "stored"
    /\ idx' = i
    /\ pc' = "drawn"
    /\ UNCHANGED <<sc, stw, stz, pw, pz, err>>

LookupW ==                  \* data["weights"] = self.weights[idx]
    /\ pc = "drawn"
    /\ IF Raises(stw) # "none"
         THEN err' = Raises(stw) /\ pc' = "done" /\ UNCHANGED pw
         ELSE pw' = Lookup(stw, sc.ix, idx) /\ pc' = "w" /\ UNCHANGED err
    /\ UNCHANGED <<sc, stw, stz, idx, pz>>

LookupZ ==                  \* data["redshifts"] = self.redshifts[idx]
    /\ pc = "w"
    /\ IF Raises(stz) # "none"
         THEN err' = Raises(stz) /\ UNCHANGED pz
         ELSE pz' = Lookup(stz, sc.ix, idx) /\ UNCHANGED err
    /\ pc' = "done"
    /\ UNCHANGED <<sc, stw, stz, idx, pw>>

SomeDraw == \E i \in Rows : DrawIndex(i)

Done == pc = "done"

Next == Store \/ SomeDraw \/ LookupW \/ LookupZ \/ (Done /\ UNCHANGED vars)

Spec == Init /\ [][Next]_vars /\ WF_vars(Next)

---------------------------------------------------------------------------

Kinds == {"ndarray", "series", "series_perm", "series_other", "list", "tuple"}

TypeOK == /\ Containers \subseteq Kinds
          /\ sc.cw \in Containers /\ sc.cz \in Containers /\ sc.ix \in Perms
          /\ stw \in Kinds \cup {"none"} /\ stz \in Kinds \cup {"none"}
          /\ idx \in 0..NRows /\ pw \in 0..NRows /\ pz \in 0..NRows
          /\ err \in {"none", "KeyError", "TypeError"}
          /\ pc \in {"new", "stored", "drawn", "w", "done"}

(* C16: the drawn (weight, redshift) pair is one row of the tables as passed, by position *)
JointRow == (Done /\ err = "none") => (pw = pz /\ pw \in Rows)

(* a draw from valid samples is never refused *)
DrawNeverRaises == err = "none"

(* the design draws by position: the drawn index IS the row *)
ByPosition == (Done /\ err = "none") => pw = idx

Termination == <>Done

PrintDone == Done => PrintT(<<"attrcase", sc, idx, pw, pz, err>>)
=============================================================================
