--------------------------- MODULE RandomGenAttrs ---------------------------
(***************************************************************************)
(* Random catalogs: the JOINT attribute draw (C16: "weights and redshifts  *)
(* drawn jointly (same source row) from the supplied samples").            *)
(*                                                                         *)
(* Code                                   action / operator here           *)
(* -------------------------------------  -------------------------------- *)
(* randoms.py  RandomsBase.__init__       Store: self.weights = weights;   *)
(*                                          self.redshifts = redshifts     *)
(*                                          (both kept AS PASSED)          *)
(*             _draw_attributes(n):                                        *)
(*               idx = rng.integers(0, n) DrawIndex(i)  one index for both *)
(*               self.weights[idx]        LookupW                          *)
(*               self.redshifts[idx]      LookupZ                          *)
(*                                                                         *)
(* What `values[idx]` means depends on the CONTAINER the user passed:      *)
(*   "ndarray"      numpy array (any dtype)            -> by POSITION      *)
(*   "series"       pandas Series, default RangeIndex  -> by label = pos.  *)
(*   "series_perm"  pandas Series whose integer index is a permutation of  *)
(*                  0..n-1 (column of a sorted / shuffled data frame       *)
(*                  without reset_index)               -> by LABEL         *)
(* A source table has the positions 1..NRows; sc.ix[p] is the index label  *)
(* at position p (the identity unless the container is "series_perm").     *)
(* The property: the weight and the redshift of a drawn point come from    *)
(* the same POSITION of the table as passed (a source row).  Whether the   *)
(* lookups go by label or by position is free - as long as BOTH do the     *)
(* same.                                                                   *)
(*                                                                         *)
(* Every case (container, index labels, drawn index) is printed with the   *)
(* positions the two lookups hit; the driver evaluates it on the real      *)
(* BoxRandoms / HealPixRandoms.                                            *)
(*                                                                         *)
(* Deviations:                                                             *)
(*   "WeightsCastAtConstruction"  the constructor converts the weights to  *)
(*                                a numpy array (np.asarray...), the       *)
(*                                redshifts stay as passed  (seed C16-K)   *)
(*   "SamplesCastAtConstruction"  admissible alternative design: BOTH      *)
(*                                sample sets are converted to numpy       *)
(*                                arrays (both lookups by position);       *)
(*                                JointRow holds, other rows are drawn     *)
(***************************************************************************)
EXTENDS Naturals, Sequences, FiniteSets, TLC

CONSTANTS NRows,        \* rows of the source table
          Containers,   \* subset of {"ndarray", "series", "series_perm"}
          Deviations

VARIABLES sc,     \* [c: container of both attribute samples, ix: index labels by position]
          stw,    \* how self.weights is stored: a container kind
          stz,    \* how self.redshifts is stored
          idx,    \* the drawn index (0: not drawn yet); a LABEL or a POSITION, depending on the container
          pw,     \* position of the table the weight lookup hit (0: not yet)
          pz,     \* position the redshift lookup hit
          pc      \* new | stored | drawn | w | done

vars == <<sc, stw, stz, idx, pw, pz, pc>>

Dev(d) == d \in Deviations

Rows     == 1..NRows
Identity == [p \in Rows |-> p]
Perms    == {f \in [Rows -> Rows] : \A p, q \in Rows : p # q => f[p] # f[q]}

IndexLabels(c) == IF c = "series_perm" THEN Perms \ {Identity} ELSE {Identity}

(* values[i]: the position of the table that container kind c (index labels ix) returns for index i *)
Lookup(c, ix, i) == IF c = "series_perm" THEN CHOOSE p \in Rows : ix[p] = i ELSE i

Init == /\ sc \in {[c |-> c, ix |-> ix] : c \in Containers, ix \in Perms}
        /\ sc.ix \in IndexLabels(sc.c)
        /\ stw = "none" /\ stz = "none"
        /\ idx = 0 /\ pw = 0 /\ pz = 0
        /\ pc = "new"

Store ==                    \* RandomsBase.__init__
    /\ pc = "new"
    /\ stw' = IF Dev("WeightsCastAtConstruction") \/ Dev("SamplesCastAtConstruction") THEN "ndarray" ELSE sc.c
    /\ stz' = IF Dev("SamplesCastAtConstruction") THEN "ndarray" ELSE sc.c
    /\ pc' = "stored"
    /\ UNCHANGED <<sc, idx, pw, pz>>

DrawIndex(i) ==             \* idx = self.rng.integers(0, self.data_size, size=probe_size), one element of it
    /\ pc = "stored"
    /\ idx' = i
    /\ pc' = "drawn"
    /\ UNCHANGED <<sc, stw, stz, pw, pz>>

LookupW ==                  \* data["weights"] = self.weights[idx]
    /\ pc = "drawn"
    /\ pw' = Lookup(stw, sc.ix, idx)
    /\ pc' = "w"
    /\ UNCHANGED <<sc, stw, stz, idx, pz>>

LookupZ ==                  \* data["redshifts"] = self.redshifts[idx]
    /\ pc = "w"
    /\ pz' = Lookup(stz, sc.ix, idx)
    /\ pc' = "done"
    /\ UNCHANGED <<sc, stw, stz, idx, pw>>

SomeDraw == \E i \in Rows : DrawIndex(i)

Done == pc = "done"

Next == Store \/ SomeDraw \/ LookupW \/ LookupZ \/ (Done /\ UNCHANGED vars)

Spec == Init /\ [][Next]_vars /\ WF_vars(Next)

---------------------------------------------------------------------------

TypeOK == /\ sc.c \in Containers /\ sc.ix \in Perms
          /\ stw \in Containers \cup {"none", "ndarray"} /\ stz \in Containers \cup {"none", "ndarray"}
          /\ idx \in 0..NRows /\ pw \in 0..NRows /\ pz \in 0..NRows
          /\ pc \in {"new", "stored", "drawn", "w", "done"}

(* C16: the drawn (weight, redshift) pair is one row of the table as passed *)
JointRow == Done => (pw = pz /\ pw \in Rows)

(* every row can be drawn (the lookup is a bijection index -> position) *)
EveryRowReachable ==
    \A c \in Containers : \A ix \in IndexLabels(c) : {Lookup(c, ix, i) : i \in Rows} = Rows

Termination == <>Done

PrintDone == Done => PrintT(<<"attrcase", sc, idx, pw, pz>>)
=============================================================================
