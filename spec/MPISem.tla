------------------------------ MODULE MPISem ------------------------------
(***************************************************************************)
(* Reusable MPI point-to-point semantics (the subset mpi4py's pickle-based *)
(* send/recv exposes), as pure operators over a channel function           *)
(*                                                                         *)
(*     chan : [Ranks \X Ranks -> Seq(Message)]      (one FIFO per pair)    *)
(*     Message = [tag, cls, arg, sync]                                     *)
(*                                                                         *)
(* MPI-3.1 section 3.5 "Semantics of point-to-point communication":        *)
(*  - Order: messages from one sender to one receiver on one communicator  *)
(*    are non-overtaking: a receive matches the FIRST message of the       *)
(*    pair's FIFO that satisfies its (tag) pattern.  Messages of DIFFERENT *)
(*    senders are not ordered at all.                                      *)
(*  - A wildcard receive (ANY_SOURCE) may match any sender that has a      *)
(*    matching message: nondeterministic.                                  *)
(*  - A standard-mode send may complete before a matching receive is       *)
(*    posted (eager, buffered) or only after it (rendezvous); a correct    *)
(*    program must work with both.  sync = TRUE marks a message whose      *)
(*    sender is blocked until it is matched.                               *)
(* Collectives are modelled in the using modules by arrival sets.          *)
(***************************************************************************)
EXTENDS Naturals, Sequences, FiniteSets

Msg(tag, cls, arg, sync) == [tag |-> tag, cls |-> cls, arg |-> arg, sync |-> sync]

(* index of the first message with the given tag in FIFO q, 0 if none *)
FirstMatch(q, tag) ==
    IF \E i \in 1..Len(q) : q[i].tag = tag
      THEN CHOOSE i \in 1..Len(q) : q[i].tag = tag /\ \A j \in 1..(i - 1) : q[j].tag # tag
      ELSE 0

HasMatch(chan, s, d, tag) == FirstMatch(chan[<<s, d>>], tag) # 0

(* the message a receive (s, tag) at d gets *)
Matched(chan, s, d, tag) == chan[<<s, d>>][FirstMatch(chan[<<s, d>>], tag)]

RemoveAt(q, i) == [j \in 1..(Len(q) - 1) |-> IF j < i THEN q[j] ELSE q[j + 1]]

Deq(chan, s, d, tag) ==
    [chan EXCEPT ![<<s, d>>] = RemoveAt(@, FirstMatch(@, tag))]

Enq(chan, s, d, m) == [chan EXCEPT ![<<s, d>>] = Append(@, m)]

(* senders a wildcard receive at d may match *)
Sources(chan, Ranks, d, tag) == { s \in Ranks : HasMatch(chan, s, d, tag) }

EmptyChan(Ranks) == [p \in Ranks \X Ranks |-> <<>>]

AllEmpty(chan) == \A p \in DOMAIN chan : chan[p] = <<>>

(* a rank blocked in a synchronous send is released when its message is gone *)
SyncPending(chan, s) == \E p \in DOMAIN chan : p[1] = s /\ \E i \in 1..Len(chan[p]) : chan[p][i].sync
=============================================================================
