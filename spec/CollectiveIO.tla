---------------------------- MODULE CollectiveIO ----------------------------
(***************************************************************************)
(* Collective skeleton of an MPI program: every rank executes a fixed      *)
(* sequence of collective calls  Prog[r] = << [kind, comm, root], ... >>.  *)
(* MPI requires that all members of a communicator call the same           *)
(* collectives in the same order with the same root.  Blocking rules:      *)
(*   Barrier / Split / allgather : return when every member has entered    *)
(*   bcast / Bcast               : a leaf returns once the root entered;   *)
(*                                 the root returns at once                *)
(*   gather                      : the root returns when all entered;      *)
(*                                 leaves return at once                   *)
(* Used in two ways: (i) the straight-line collective programs of          *)
(* load_patches, DataReader.get_probe, create_patch_centers,               *)
(* HistData.from_catalog, CorrFunc.to_file/from_file (bcast_instance) as   *)
(* constants; (ii) the sequences RECORDED from the real library in one     *)
(* schedule, model-checked for all schedules (code -> spec).               *)
(***************************************************************************)
EXTENDS Integers, Sequences, FiniteSets, TLC

CONSTANTS Size,      \* number of ranks
          Prog,      \* Prog[r + 1] : sequence of [kind, comm, root] of rank r
          Members    \* comm -> set of world ranks

VARIABLES ip, inside, slot, mismatch, cnt

vars == <<ip, inside, slot, mismatch, cnt>>

Ranks == 0..(Size - 1)
P(r) == Prog[r + 1]
Op(r) == P(r)[ip[r]]

(* cnt[r][c]: how many collectives on communicator c rank r has completed *)
Comms == DOMAIN Members

(* world rank of comm rank k: k-th smallest member *)
WorldOf(c, k) == CHOOSE r \in Members[c] : Cardinality({ q \in Members[c] : q < r }) = k

Key(r) == <<Op(r).comm, cnt[r][Op(r).comm]>>

Init == /\ ip = [r \in Ranks |-> 1]
        /\ inside = [r \in Ranks |-> FALSE]
        /\ slot = <<>>                 \* key -> [kind, root, arrived]
        /\ mismatch = FALSE
        /\ cnt = [r \in Ranks |-> [c \in Comms |-> 0]]

Enter(r) ==
    /\ ip[r] <= Len(P(r)) /\ ~inside[r]
    /\ LET k == Key(r) IN
         IF k \in DOMAIN slot
           THEN /\ slot' = [slot EXCEPT ![k].arrived = @ \cup {r}]
                /\ mismatch' = (mismatch \/ slot[k].kind # Op(r).kind \/ slot[k].root # Op(r).root)
           ELSE /\ slot' = [x \in (DOMAIN slot) \cup {k} |->
                              IF x = k THEN [kind |-> Op(r).kind, root |-> Op(r).root, arrived |-> {r}]
                              ELSE slot[x]]
                /\ UNCHANGED mismatch
    /\ inside' = [inside EXCEPT ![r] = TRUE]
    /\ UNCHANGED <<ip, cnt>>

CanExit(r) ==
    LET s == slot[Key(r)]
        c == Op(r).comm
        all == s.arrived = Members[c]
    IN CASE Op(r).kind \in {"Barrier", "Split", "allgather"} -> all
         [] Op(r).kind \in {"bcast", "Bcast"} -> WorldOf(c, Op(r).root) \in s.arrived
         [] Op(r).kind = "gather" -> (r # WorldOf(c, Op(r).root)) \/ all
         [] OTHER -> all

Exit(r) ==
    /\ inside[r] /\ CanExit(r)
    /\ inside' = [inside EXCEPT ![r] = FALSE]
    /\ ip' = [ip EXCEPT ![r] = @ + 1]
    /\ cnt' = [cnt EXCEPT ![r][Op(r).comm] = @ + 1]
    /\ UNCHANGED <<slot, mismatch>>

Done == \A r \in Ranks : ip[r] = Len(P(r)) + 1

SomeEnter == \E r \in Ranks : Enter(r)
SomeExit == \E r \in Ranks : Exit(r)
Next == SomeEnter \/ SomeExit \/ (Done /\ UNCHANGED vars)

Spec == Init /\ [][Next]_vars /\ WF_vars(Next)

NoMismatch == ~mismatch
Termination == <>Done
TypeOK == \A r \in Ranks : ip[r] \in 1..(Len(P(r)) + 1)
=============================================================================
