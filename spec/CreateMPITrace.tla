--------------------------- MODULE CreateMPITrace ---------------------------
(***************************************************************************)
(* Trace validation for CreateMPI: events recorded by the deterministic    *)
(* MPI runtime while the REAL MPI write_patches (WorkerManager,            *)
(* scatter_data_chunk, chunk_processing_task, writer_task) runs.           *)
(* Collectives of the set-up phase (gather/bcast/Split, bcast of the       *)
(* reader's comm rank, Free) have no counterpart in CreateMPI and are      *)
(* consumed as stuttering steps; their cross-rank consistency is checked   *)
(* by CollectiveIO.                                                        *)
(***************************************************************************)
EXTENDS CreateMPI, Json, IOUtils, TLCExt

Traces == ndJsonDeserialize(IOEnv.TRACE_FILE)

VARIABLES tid, l
tvars == <<vars, tid, l>>

T == Traces[tid].events
Ev == T[l + 1]

TInit == /\ Init
         /\ tid \in 1..Len(Traces) /\ l = 0
         /\ ((MW >= 2 /\ Cardinality(Active) >= 2) => writer = T[1].writer)
         /\ TLCSet(tid, 0) /\ TLCSet(1000 + tid, FALSE)

Consume == l < Len(T) /\ l' = l + 1 /\ UNCHANGED tid
Silent == UNCHANGED <<tid, l>>

LastOf(q) == q[Len(q)]
Sent(s, d) == LastOf(chan'[<<s, d>>])
ModeOK(s, d) == Sent(s, d).sync = (Ev.mode = "sync")

(* i-th (0-based) member of the worker communicator = i-th smallest worker *)
WorkerAt(i) == CHOOSE r \in Workers : Cardinality({ q \in Workers : q < r }) = i

TScatter == /\ Consume /\ Ev.ev = "send" /\ Ev.tag = 2 /\ Ev.cls = "Split" /\ Ev.wr = Reader
            /\ pc[Reader] = "scatter" /\ jsend <= Cardinality(Others)
            /\ OtherAt(jsend) = WorkerAt(Ev.dst)
            /\ (Ev.arg >= 0 => Ev.arg = chunk[Reader])
            /\ ReaderScatter /\ ModeOK(Reader, OtherAt(jsend))
TGetSplit == /\ Consume /\ Ev.ev = "recv" /\ Ev.tag = 2 /\ Ev.wr \in Ranks
             /\ WorkerGetSplit(Ev.wr)
TPatches == /\ Consume /\ Ev.ev = "send" /\ Ev.tag = 1 /\ Ev.cls = "Patches" /\ Ev.wr \in Ranks
            /\ Ev.dst = writer
            /\ (Ev.arg >= 0 => Ev.arg = chunk[Ev.wr])
            /\ SendPatches(Ev.wr) /\ ModeOK(Ev.wr, writer)
TEOQ == /\ Consume /\ Ev.ev = "send" /\ Ev.tag = 1 /\ Ev.cls = "EOQ" /\ Ev.wr \in Ranks
        /\ Ev.dst = writer
        /\ SendEOQ(Ev.wr) /\ ModeOK(Ev.wr, writer)
TWriterRecv == /\ Consume /\ Ev.ev = "recv" /\ Ev.tag = 1 /\ Ev.wr = writer /\ Ev.wild
               /\ Ev.src \in Ranks /\ HasMatch(chan, Ev.src, writer, 1)
               /\ Matched(chan, Ev.src, writer, 1).cls = Ev.cls
               /\ WriterRecv(Ev.src)
TSync == Consume /\ Ev.ev = "sendwait_done" /\ Ev.wr \in Ranks /\ SyncDone(Ev.wr)
TWBarrierArrive == /\ Consume /\ Ev.ev = "coll_enter" /\ Ev.kind = "Barrier" /\ Ev.comm # "W"
                   /\ Ev.wr \in Ranks /\ WBarrierArrive(Ev.wr)
TWBarrierPass == /\ Consume /\ Ev.ev = "coll_exit" /\ Ev.kind = "Barrier" /\ Ev.comm # "W"
                 /\ Ev.wr \in Ranks /\ WBarrierPass(Ev.wr)
TGBarrierArrive == /\ Consume /\ Ev.ev = "coll_enter" /\ Ev.kind = "Barrier" /\ Ev.comm = "W"
                   /\ Ev.wr \in Ranks /\ GBarrierArrive(Ev.wr)
TGBarrierPass == /\ Consume /\ Ev.ev = "coll_exit" /\ Ev.kind = "Barrier" /\ Ev.comm = "W"
                 /\ Ev.wr \in Ranks /\ GBarrierPass(Ev.wr)
(* set-up collectives and Free: no CreateMPI action *)
TSkip == /\ Consume /\ UNCHANGED vars
         /\ \/ Ev.ev = "free"
            \/ (Ev.ev \in {"coll_enter", "coll_exit"} /\ Ev.kind \in {"gather", "bcast", "Split"})
TSilent == Silent /\ (WriterFinalize \/ ReaderScatterNone)

TNext == \/ TScatter \/ TGetSplit \/ TPatches \/ TEOQ \/ TWriterRecv \/ TSync
         \/ TWBarrierArrive \/ TWBarrierPass \/ TGBarrierArrive \/ TGBarrierPass
         \/ TSkip \/ TSilent

TSpec == TInit /\ [][TNext]_tvars

Progress == /\ TLCSet(tid, IF l > TLCGet(tid) THEN l ELSE TLCGet(tid))
            /\ ((l = Len(T) /\ Done) => TLCSet(1000 + tid, TRUE))

Post == PrintT(<<"verdict", [i \in 1..Len(Traces) |-> <<TLCGet(i), TLCGet(1000 + i)>>]>>)
=============================================================================
