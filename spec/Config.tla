------------------------------- MODULE Config -------------------------------
(***************************************************************************)
(* yaw.config: Configuration / ScalesConfig / BinningConfig as a           *)
(* sequential program over ABSTRACT parameter records (property C15).      *)
(*                                                                         *)
(* Two layers.                                                             *)
(*  (1) DECLARATIVE (what the property says): Verdict(p) classifies a      *)
(*      parameter record as "accept" / "reject" / "open" (the property     *)
(*      leaves the outcome open), Declared(p) is the configuration a       *)
(*      parameter record means, Merge(n, d) the parameters meant by        *)
(*      "modify n with d".                                                 *)
(*  (2) OPERATIONAL (what the code does, step by step): one action per     *)
(*      code step of the public operations                                 *)
(*                                                                         *)
(*   action                 code                                           *)
(*   ---------------------  -------------------------------------------   *)
(*   BeginCreate(p)         Configuration.create(p...)          combined *)
(*   CreateParseCosmology     parse_cosmology(cosmology)         combined *)
(*   CreateScales             ScalesConfig.create(...)           scales   *)
(*                            -> new_scales / Scales._set_scales cosmology*)
(*   CreateBinning            BinningConfig.create(..., cosmology)binning *)
(*                            -> RedshiftBinningFactory.<method>, Binning  *)
(*                            -> parse_binning                  binning.py*)
(*   CreateConstruct          Configuration.__init__             combined *)
(*   BeginModify(d)         Configuration.modify(d...)          combined *)
(*   ModifyScales             self.scales.modify(...) = BaseConfig.modify *)
(*                            (to_dict, update, from_dict -> create)  base*)
(*   ModifyBinning            self.binning.modify(..., cosmology) binning *)
(*                            -> BinningConfig.from_dict -> create        *)
(*   ModifyCosmology          self.cosmology | parse_cosmology   combined *)
(*   ModifyConstruct          Configuration.__init__             combined *)
(*   BeginRebuild(d)        Configuration(donor.scales, donor.binning,    *)
(*                            cosmology=c, max_workers=donor.max_workers) *)
(*                            the public constructor: the new object      *)
(*                            SHARES the parts objects of the donor       *)
(*   RebuildConstruct         Configuration.__init__ (isinstance checks,  *)
(*                            parse_cosmology)                   combined *)
(*   Raise                  an exception of a step propagates to the user *)
(*   ObserveAngles          cfg.scales.scales.get_angle_radian(z, cosmo)  *)
(*                            -> Angular/Physical/ComovingScales          *)
(*                               ._compute_angle  (ComputeAngle)          *)
(*                          one step per entry of the operation's         *)
(*                          observation schedule: "n" = the new object,   *)
(*                          "d" = the donor / the object modified.        *)
(*                          Observations are PURE: every one yields the   *)
(*                          angles of the observed configuration's own    *)
(*                          cosmology, whatever was observed before on it *)
(*                          or on a configuration sharing its parts.      *)
(*   ObserveEq              cfg == twin  (Configuration.__eq__ =          *)
(*                            BinningConfig.__eq__ and ScalesConfig.__eq__*)
(*                            and cosmology_is_equal, short circuit)      *)
(*   ObserveToDict          cfg.to_dict()  (cosmology_to_yaml)            *)
(*   ObserveFromDict        Configuration.from_dict(...)                  *)
(*                            -> ScalesConfig.from_dict,                  *)
(*                               BinningConfig.from_dict(d, cosmology)    *)
(*                                                                         *)
(* Values.  Redshifts are integers in 1/100, scales and rweight/resolution *)
(* opaque integer tokens, cosmologies tokens (see below); floats never     *)
(* enter: the abstract binning [method, nb, zmin, zmax, edges, closed,     *)
(* gen, fuzz] names the FORMULA of the edges (gen = cosmology the comoving *)
(* edges are generated with; fuzz = 0 iff edges[0] / edges[-1] are exactly *)
(* zmin / zmax), the driver evaluates it.                                  *)
(*   NONE = python None, NOTSET / NS / NSQ = yaw.options.NotSet.           *)
(*   cosmology tokens: "omitted" (argument not passed), "none" (None),     *)
(*   "Planck15" "WMAP9" (named astropy objects), "anon" (unnamed FLAT FLRW *)
(*   object), "open" "closed" (unnamed FLRW objects WITH spatial curvature,*)
(*   Ok0 > 0 resp. < 0), "custom" (CustomCosmology subclass instance whose *)
(*   two distance methods are those of a flat model), "customDA"           *)
(*   (CustomCosmology whose angular_diameter_distance is NOT               *)
(*   comoving_distance / (1+z)), "s:<name>" (string), "badtype" (an int).  *)
(*   Angles: the spec names WHICH distance method of WHICH cosmology the   *)
(*   scale limits are divided by (declarative AngleSpec, operational       *)
(*   ComputeAngle); the driver evaluates that method of that cosmology.    *)
(*   DistanceIdentity(c) says for which cosmologies the two measures are   *)
(*   tied by D_A = D_C / (1+z) (spatially flat models only): only there    *)
(*   may one measure stand in for the other.                               *)
(*                                                                         *)
(* Deviations (departures of the code as found from the design that        *)
(* satisfies C15; Deviations = {} must pass, each one must fail):          *)
(*   "EqRbinNum"                ScalesConfig.__eq__ reads self.rbin_num    *)
(*   "CustomFromDictStrict"     BinningConfig.from_dict passes the None    *)
(*                              valued zmin/zmax/num_bins of to_dict() to  *)
(*                              __init__ (TypeError)                       *)
(*   "CustomModifyDropsEdges"   BinningConfig.modify of custom bins without*)
(*                              new edges builds a dict without 'edges'    *)
(*   "ModifyPassesRawCosmology" Configuration.modify hands the raw         *)
(*                              argument (NotSet / str / None) to          *)
(*                              BinningConfig.modify instead of the        *)
(*                              configuration's cosmology                  *)
(*   "ForwardRefIsinstance"     parse_cosmology: isinstance(x, (FLRW,      *)
(*                              ForwardRef)) raises for every non-FLRW     *)
(*   "ComovingZeroZmin"         comoving edges with zmin = 0: z_at_value   *)
(*                              raises CosmologyError                      *)
(*   "ModifyEdgesNoneIsCustom"  modify(edges=None) is taken as a request   *)
(*                              for custom bins                            *)
(*   "ComovingCustomFloats"     RedshiftBinningFactory.comoving mixes the  *)
(*                              plain floats of a CustomCosmology with     *)
(*                              Quantities (UnitConversionError)           *)
(*   "InexactEndPoints"         logspace / comoving edges reproduce zmin   *)
(*                              and zmax only approximately; modify and    *)
(*                              from_dict regenerate the bins from these   *)
(*                              inexact end points (binning.fuzz counts    *)
(*                              the inexact generations: 0 = the edges span*)
(*                              exactly [zmin, zmax])                      *)
(*   "PhysicalViaComoving"      PhysicalScales._compute_angle derives the  *)
(*                              angular diameter distance as               *)
(*                              comoving_distance(z) / (1+z) instead of    *)
(*                              calling cosmology.angular_diameter_distance*)
(*                              (invisible on every domain whose           *)
(*                              cosmologies all have DistanceIdentity)     *)
(*   "AngleMemoIgnoresCosmology" Scales.get_angle_radian memoises on the   *)
(*                              Scales object by redshift only: a Scales   *)
(*                              object shared by two configurations keeps  *)
(*                              the angles of the cosmology served first   *)
(*   "AngularInPlace"           AngularScales._compute_angle divides the   *)
(*                              stored arcmin/arcsec limits in place: the  *)
(*                              k-th conversion applies the divisor k times*)
(***************************************************************************)
EXTENDS Integers, Sequences, FiniteSets, TLC

CONSTANTS P,          \* record of sets: value domains of the create parameters
          D,          \* record of sets: value domains of the modify parameters
          ModKeys,    \* parameters that modify may set
          MaxMods,    \* modifications per history
          MaxDelta,   \* parameters set per modification (0..3)
          Deviations

VARIABLES pc,      \* control state
          cur,     \* the user's current configuration object (abstract)
          decl,    \* declared parameters cur stands for (normal form)
          orig,    \* cur when the running operation started
          p0,      \* parameters of the initial create
          mods,    \* sequence of modify deltas applied so far
          tmp,     \* in-flight operation: argument, sub-results
          last     \* record of the last completed public operation

vars == <<pc, cur, decl, orig, p0, mods, tmp, last>>

NONE == -1
NOTSET == -2
NS == "~"
NSQ == <<NOTSET>>

AutoMethods == {"linear", "comoving", "logspace"}
KnownMethods == AutoMethods \cup {"custom"}
AngularUnits == {"rad", "deg", "arcmin", "arcsec"}
PhysicalUnits == {"kpc", "Mpc"}
ComovingUnits == {"kpc/h", "Mpc/h"}
KnownUnits == AngularUnits \cup PhysicalUnits \cup ComovingUnits
KnownCloseds == {"right", "left"}

FlatFLRW == {"Planck15", "WMAP9", "anon"}
CurvedFLRW == {"open", "closed"}
FLRWObjects == FlatFLRW \cup CurvedFLRW
CustomObjects == {"custom", "customDA"}
CosmoObjects == FLRWObjects \cup CustomObjects
(* cosmologies for which angular_diameter_distance(z) = comoving_distance(z) / (1+z) *)
DistanceIdentity(c) == c \in FlatFLRW \cup {"custom"}
KnownNames == {"s:Planck15", "s:WMAP9"}
NameTarget(tok) == IF tok = "s:WMAP9" THEN "WMAP9" ELSE "Planck15"
NameOf(id) == IF id = "WMAP9" THEN "s:WMAP9" ELSE "s:Planck15"
DefaultCosmo == "Planck15"

Increasing(e) == \A i \in 1..(Len(e) - 1) : e[i] < e[i + 1]

---------------------------------------------------------------------------
(* Shapes (every variable keeps one record shape)                          *)

NoScales == [rmin |-> <<>>, rmax |-> <<>>, unit |-> "-", rw |-> NONE, res |-> NONE]
NoBinning == [method |-> "-", nb |-> NONE, zmin |-> NONE, zmax |-> NONE,
              edges |-> <<>>, closed |-> "-", gen |-> "-", fuzz |-> 0]
NoObj == [ok |-> FALSE, scales |-> NoScales, binning |-> NoBinning,
          cosmo |-> "-", workers |-> NONE]
NoParams == [rmin |-> <<>>, rmax |-> <<>>, unit |-> "-", rw |-> NONE, res |-> NONE,
             zmin |-> NONE, zmax |-> NONE, nb |-> NONE, method |-> "-",
             edges |-> <<>>, closed |-> "-", cosmo |-> "-", workers |-> NONE]
(* rebuild = <<>>: a modify delta; rebuild = <<cosmology token, schedule>>: *)
(* "construct from the parts of the current configuration with that        *)
(* cosmology, then observe angles in the order of the schedule"            *)
NoDelta == [rmin |-> NSQ, rmax |-> NSQ, unit |-> NS, rw |-> NOTSET, res |-> NOTSET,
            zmin |-> NOTSET, zmax |-> NOTSET, nb |-> NOTSET, method |-> NS,
            edges |-> NSQ, closed |-> NS, cosmo |-> NS, workers |-> NOTSET,
            rebuild |-> <<>>]

SRes(st, err, v) == [st |-> st, err |-> err, v |-> v]
BRes(st, err, v) == [st |-> st, err |-> err, v |-> v]
CRes(st, err, id) == [st |-> st, err |-> err, id |-> id]
NoS == SRes("-", "-", NoScales)
NoB == BRes("-", "-", NoBinning)
NoC == CRes("-", "-", "-")
NoAngle == [measure |-> "-", div |-> 0, pow |-> 0, cosmo |-> "-"]
NoObs == [angle |-> NoAngle,        \* first observation of the new object
          seq |-> <<>>,             \* all angle observations: [who, angle]
          eqb |-> "-", eqs |-> "-", eqc |-> "-", eq |-> "-", eqprev |-> "-",
          todict |-> "-", rt |-> "-", rterr |-> "-"]
NoTmp == [op |-> "-", p |-> NoParams, d |-> NoDelta, rc |-> NoC, rs |-> NoS, rb |-> NoB,
          carg |-> "-", err |-> "-", step |-> "-", obs |-> NoObs, new |-> NoObj,
          \* per Scales object ("n": the new configuration's, "d": the donor's own if
          \* it is another object): angles memoised / number of conversions done
          memo |-> [n |-> NoAngle, d |-> NoAngle], uses |-> [n |-> 0, d |-> 0]]
NoLast == [op |-> "-", out |-> "-", err |-> "-", step |-> "-", verdict |-> "-",
           rc |-> NoC, rs |-> NoS, rb |-> NoB, carg |-> "-", obs |-> NoObs]

---------------------------------------------------------------------------
(* Parameter spaces                                                        *)

ParamSpace ==
    { [rmin |-> s[1], rmax |-> s[2], unit |-> u, rw |-> w[1], res |-> w[2],
       zmin |-> z[1], zmax |-> z[2], nb |-> n, method |-> m, edges |-> e,
       closed |-> c, cosmo |-> k, workers |-> x] :
      s \in P.scales, u \in P.units, w \in P.rw, z \in P.zpairs, n \in P.numbins,
      m \in P.methods, e \in P.edges, c \in P.closeds, k \in P.cosmos, x \in P.workers }

Keys == {"rmin", "rmax", "unit", "rw", "res", "zmin", "zmax", "nb", "method",
         "edges", "closed", "cosmo", "workers"}

IsSet(d, k) ==
    CASE k = "rmin" -> d.rmin # NSQ       [] k = "rmax" -> d.rmax # NSQ
      [] k = "unit" -> d.unit # NS        [] k = "rw" -> d.rw # NOTSET
      [] k = "res" -> d.res # NOTSET      [] k = "zmin" -> d.zmin # NOTSET
      [] k = "zmax" -> d.zmax # NOTSET    [] k = "nb" -> d.nb # NOTSET
      [] k = "method" -> d.method # NS    [] k = "edges" -> d.edges # NSQ
      [] k = "closed" -> d.closed # NS    [] k = "cosmo" -> d.cosmo # NS
      [] k = "workers" -> d.workers # NOTSET

SetKeys(d) == { k \in Keys : IsSet(d, k) }

DeltasOf(d, k) ==
    CASE k = "rmin" -> { [d EXCEPT !.rmin = v] : v \in D.rmin }
      [] k = "rmax" -> { [d EXCEPT !.rmax = v] : v \in D.rmax }
      [] k = "unit" -> { [d EXCEPT !.unit = v] : v \in D.unit }
      [] k = "rw" -> { [d EXCEPT !.rw = v] : v \in D.rw }
      [] k = "res" -> { [d EXCEPT !.res = v] : v \in D.res }
      [] k = "zmin" -> { [d EXCEPT !.zmin = v] : v \in D.zmin }
      [] k = "zmax" -> { [d EXCEPT !.zmax = v] : v \in D.zmax }
      [] k = "nb" -> { [d EXCEPT !.nb = v] : v \in D.nb }
      [] k = "method" -> { [d EXCEPT !.method = v] : v \in D.method }
      [] k = "edges" -> { [d EXCEPT !.edges = v] : v \in D.edges }
      [] k = "closed" -> { [d EXCEPT !.closed = v] : v \in D.closed }
      [] k = "cosmo" -> { [d EXCEPT !.cosmo = v] : v \in D.cosmo }
      [] k = "workers" -> { [d EXCEPT !.workers = v] : v \in D.workers }

Extend(ds) == UNION { UNION { DeltasOf(d, k) : k \in { kk \in ModKeys : ~IsSet(d, kk) } } : d \in ds }

(* deltas that set exactly 0, 1, 2, 3 parameters; constant definitions are  *)
(* evaluated once by TLC, the guards keep unused levels empty               *)
Deltas0 == {NoDelta}
Deltas1 == IF MaxDelta >= 1 THEN Extend(Deltas0) ELSE {}
Deltas2 == IF MaxDelta >= 2 THEN Extend(Deltas1) ELSE {}
Deltas3 == IF MaxDelta >= 3 THEN Extend(Deltas2) ELSE {}
RebuildDeltas == { [NoDelta EXCEPT !.rebuild = v] : v \in D.rebuild }
DeltaSpace == Deltas0 \cup Deltas1 \cup Deltas2 \cup Deltas3

(* angle observations made after an operation: create / modify observe the  *)
(* new object twice, a rebuild follows the schedule of its delta            *)
DefaultSchedule == <<"n", "n">>

---------------------------------------------------------------------------
(* (1) DECLARATIVE LAYER                                                   *)

(* cosmology a parameter token stands for; "-" = no valid cosmology *)
CosmoIdOf(tok) ==
    CASE tok \in {"omitted", "none"} -> DefaultCosmo
      [] tok \in KnownNames -> NameTarget(tok)
      [] tok \in CosmoObjects -> tok
      [] OTHER -> "-"

CosmoVerdict(p) == IF CosmoIdOf(p.cosmo) = "-" THEN "reject" ELSE "accept"

ScalesVerdict(p) ==
    IF p.unit \notin KnownUnits THEN "reject"
    ELSE IF Len(p.rmin) # Len(p.rmax) \/ Len(p.rmin) = 0 THEN "open"
    ELSE IF \E i \in 1..Len(p.rmin) : p.rmin[i] >= p.rmax[i] THEN "reject"
    ELSE "accept"

HasZ(p) == p.zmin # NONE /\ p.zmax # NONE
HasE(p) == p.edges # <<>>

BinningVerdict(p) ==
    IF ~HasZ(p) /\ ~HasE(p) THEN "reject"                 \* neither edges nor zmin/zmax
    ELSE IF HasZ(p) /\ HasE(p) THEN "open"                \* which one wins is not stated
    ELSE IF p.closed \notin KnownCloseds THEN "open"
    ELSE IF HasZ(p) THEN
        IF p.method \notin KnownMethods THEN "reject"     \* unknown method
        ELSE IF p.zmin >= p.zmax THEN "reject"            \* non-increasing edges
        ELSE IF p.method = "custom" \/ p.nb < 1 THEN "open"
        ELSE "accept"
    ELSE
        IF Len(p.edges) < 2 THEN "open"
        ELSE IF ~Increasing(p.edges) THEN "reject"        \* non-increasing edges
        ELSE IF p.zmin # NONE \/ p.zmax # NONE \/ p.method \notin KnownMethods THEN "open"
        ELSE "accept"

Verdict(p) ==
    LET vs == {CosmoVerdict(p), ScalesVerdict(p), BinningVerdict(p)}
    IN IF "reject" \in vs THEN "reject" ELSE IF "open" \in vs THEN "open" ELSE "accept"

(* the configuration an accepted parameter record means *)
Declared(p) ==
    [ok |-> TRUE,
     scales |-> [rmin |-> p.rmin, rmax |-> p.rmax, unit |-> p.unit, rw |-> p.rw, res |-> p.res],
     binning |->
        IF HasZ(p)
        THEN [method |-> p.method, nb |-> p.nb, zmin |-> p.zmin, zmax |-> p.zmax,
              edges |-> <<>>, closed |-> p.closed,
              gen |-> IF p.method = "comoving" THEN CosmoIdOf(p.cosmo) ELSE "-",
              fuzz |-> 0]                        \* spanning exactly [zmin, zmax]
        ELSE [method |-> "custom", nb |-> Len(p.edges) - 1, zmin |-> p.edges[1],
              zmax |-> p.edges[Len(p.edges)], edges |-> p.edges, closed |-> p.closed,
              gen |-> "-", fuzz |-> 0],
     cosmo |-> CosmoIdOf(p.cosmo),
     workers |-> p.workers]

(* parameters (normal form) an object stands for *)
ParamsOf(o) ==
    [rmin |-> o.scales.rmin, rmax |-> o.scales.rmax, unit |-> o.scales.unit,
     rw |-> o.scales.rw, res |-> o.scales.res,
     zmin |-> IF o.binning.method = "custom" THEN NONE ELSE o.binning.zmin,
     zmax |-> IF o.binning.method = "custom" THEN NONE ELSE o.binning.zmax,
     nb |-> IF o.binning.method = "custom" THEN NONE ELSE o.binning.nb,
     method |-> o.binning.method,
     edges |-> o.binning.edges, closed |-> o.binning.closed,
     cosmo |-> o.cosmo, workers |-> o.workers]

GenKeys == {"zmin", "zmax", "nb", "method"}

(* "the merged parameters" of modify(n, d); amb = the property does not say *)
Merge(n, d) ==
    LET sk == SetKeys(d)
        newEdges == d.edges # NSQ /\ d.edges # <<>>
        wasCustom == n.method = "custom"
        gk == sk \cap GenKeys
        switch == wasCustom /\ ~newEdges /\ gk = GenKeys       \* custom -> generated
        keep == wasCustom /\ ~newEdges /\ gk = {} /\ d.edges = NSQ
        pick(k, dv, nv) == IF k \in sk THEN dv ELSE nv
        amb == \/ newEdges /\ (gk \ {"method"} # {} \/ ("method" \in sk /\ d.method # "custom"))
               \/ wasCustom /\ ~newEdges /\ ~keep /\ ~switch /\ d.edges = NSQ
               \/ wasCustom /\ d.edges = <<>>                  \* modify(edges=None) of custom bins
    IN [amb |-> amb,
        p |-> [rmin |-> pick("rmin", d.rmin, n.rmin), rmax |-> pick("rmax", d.rmax, n.rmax),
               unit |-> pick("unit", d.unit, n.unit), rw |-> pick("rw", d.rw, n.rw),
               res |-> pick("res", d.res, n.res),
               zmin |-> IF newEdges \/ keep THEN NONE ELSE pick("zmin", d.zmin, n.zmin),
               zmax |-> IF newEdges \/ keep THEN NONE ELSE pick("zmax", d.zmax, n.zmax),
               nb |-> IF newEdges \/ keep THEN NONE ELSE pick("nb", d.nb, n.nb),
               method |-> IF newEdges \/ keep THEN "custom" ELSE pick("method", d.method, n.method),
               edges |-> IF newEdges THEN d.edges
                         ELSE IF switch THEN <<>>
                         ELSE pick("edges", d.edges, n.edges),
               closed |-> pick("closed", d.closed, n.closed),
               cosmo |-> pick("cosmo", d.cosmo, n.cosmo),
               workers |-> pick("workers", d.workers, n.workers)]]

MergeVerdict(n, d) == LET m == Merge(n, d) IN
    IF m.amb        \* only the parts of the merge that are unambiguous can demand a rejection
    THEN (IF "reject" \in {CosmoVerdict(m.p), ScalesVerdict(m.p)} THEN "reject" ELSE "open")
    ELSE Verdict(m.p)

(* unit -> distance measure and divisor of get_angle_radian: the angle of a *)
(* scale limit r is (r / div) / <measure>(z) of cosmology <cosmo>          *)
(* (options.Unit: kpc, Mpc = transverse angular diameter distance;         *)
(*  kpc/h, Mpc/h = transverse comoving distance)                           *)
AngleSpec(o) ==
    LET u == o.scales.unit IN
    [measure |-> CASE u = "rad" -> "rad"
                   [] u \in {"deg", "arcmin", "arcsec"} -> "deg"
                   [] u \in PhysicalUnits -> "angular_diameter_distance"
                   [] OTHER -> "comoving_distance",
     div |-> CASE u \in {"kpc", "kpc/h"} -> 1000
               [] u = "arcmin" -> 60 [] u = "arcsec" -> 3600 [] OTHER -> 1,
     pow |-> 1,                                    \* the divisor is applied once
     cosmo |-> o.cosmo]

(* the configuration "the parts of n with cosmology token tok" stands for *)
RebuildParams(n, tok) == [n EXCEPT !.cosmo = tok]
RebuildVerdict(n, d) == CosmoVerdict(RebuildParams(n, d.rebuild[1]))

(* two angle formulas give the same angles: same divisor and cosmology and *)
(* the same distance method - or the two methods tied by DistanceIdentity  *)
SameAngles(a, b) ==
    /\ a.div = b.div /\ a.pow = b.pow /\ a.cosmo = b.cosmo
    /\ \/ a.measure = b.measure
       \/ /\ {a.measure, b.measure} = {"angular_diameter_distance", "comoving_distance/(1+z)"}
          /\ DistanceIdentity(a.cosmo)

---------------------------------------------------------------------------
(* (2) OPERATIONAL LAYER: the library's functions                          *)

(* config/combined.py: parse_cosmology *)
ParseCosmology(tok) ==
    CASE tok = "none" -> CRes("ok", "-", DefaultCosmo)
      [] tok \in KnownNames -> CRes("ok", "-", NameTarget(tok))
      [] tok \in FLRWObjects -> CRes("ok", "-", tok)
      [] tok \in CustomObjects -> IF "ForwardRefIsinstance" \in Deviations
                                  THEN CRes("raises", "TypeError", "-")
                                  ELSE CRes("ok", "-", tok)
      [] tok = "badtype" -> IF "ForwardRefIsinstance" \in Deviations
                            THEN CRes("raises", "TypeError", "-")
                            ELSE CRes("raises", "ConfigError", "-")
      [] OTHER -> CRes("raises", "ConfigError", "-")        \* unknown name

(* config/scales.py: ScalesConfig.create -> __init__ -> new_scales -> _set_scales *)
ScalesCreate(rmin, rmax, unit, rw, res) ==
    IF unit \notin KnownUnits THEN SRes("raises", "ConfigError", NoScales)
    ELSE IF Len(rmin) # Len(rmax) THEN SRes("raises", "ConfigError", NoScales)
    ELSE IF \E i \in 1..Len(rmin) : rmax[i] <= rmin[i] THEN SRes("raises", "ConfigError", NoScales)
    ELSE SRes("ok", "-", [rmin |-> rmin, rmax |-> rmax, unit |-> unit, rw |-> rw, res |-> res])

(* config/base.py: BaseConfig.modify = to_dict, update, from_dict -> create *)
ScalesModify(s, d) ==
    ScalesCreate(IF d.rmin = NSQ THEN s.rmin ELSE d.rmin,
                 IF d.rmax = NSQ THEN s.rmax ELSE d.rmax,
                 IF d.unit = NS THEN s.unit ELSE d.unit,
                 IF d.rw = NOTSET THEN s.rw ELSE d.rw,
                 IF d.res = NOTSET THEN s.res ELSE d.res)

(* cosmology.py: RedshiftBinningFactory(cosmology): cosmology or default *)
FactoryCosmo(carg) == IF carg \in {"none", NS} THEN DefaultCosmo ELSE carg

(* config/binning.py: BinningConfig.create *)
(* fz = inexactness of the zmin/zmax handed in (0: the user's own values)  *)
OutFuzz(method, fz) ==
    IF "InexactEndPoints" \in Deviations /\ method \in {"comoving", "logspace"}
    THEN (IF fz >= 1 THEN 2 ELSE 1) ELSE fz

BinningCreate(zmin, zmax, nb, method, edges, closed, carg, fz) ==
    LET auto == zmin # NONE /\ zmax # NONE
        cust == edges # <<>>
    IN IF ~auto /\ ~cust THEN BRes("raises", "ConfigError", NoBinning)
       ELSE IF closed \notin KnownCloseds THEN BRes("raises", "ValueError", NoBinning)
       ELSE IF auto THEN
            IF method \notin AutoMethods THEN BRes("raises", "ValueError", NoBinning)
            ELSE IF method = "comoving" /\ FactoryCosmo(carg) \notin CosmoObjects
                 THEN BRes("raises", "AttributeError", NoBinning)      \* a str has no comoving_distance
            ELSE IF nb = NONE THEN BRes("raises", "TypeError", NoBinning)
            ELSE IF nb < 1 \/ zmin >= zmax THEN BRes("raises", "ValueError", NoBinning)
            ELSE IF method = "comoving" /\ FactoryCosmo(carg) \in CustomObjects
                    /\ "ComovingCustomFloats" \in Deviations
                 THEN BRes("raises", "UnitConversionError", NoBinning)
            ELSE IF method = "comoving" /\ zmin = 0 /\ "ComovingZeroZmin" \in Deviations
                 THEN BRes("raises", "CosmologyError", NoBinning)
            ELSE BRes("ok", "-", [method |-> method, nb |-> nb, zmin |-> zmin, zmax |-> zmax,
                                  edges |-> <<>>, closed |-> closed,
                                  gen |-> IF method = "comoving" THEN FactoryCosmo(carg) ELSE "-",
                                  fuzz |-> OutFuzz(method, fz)])
       ELSE IF Len(edges) < 2 \/ ~Increasing(edges) THEN BRes("raises", "ValueError", NoBinning)
       ELSE BRes("ok", "-", [method |-> "custom", nb |-> Len(edges) - 1, zmin |-> edges[1],
                             zmax |-> edges[Len(edges)], edges |-> edges, closed |-> closed,
                             gen |-> "-", fuzz |-> 0])

(* a python dict for BinningConfig.from_dict: fields + the set of keys present *)
BDict(keys, zmin, zmax, nb, method, edges, closed, fz) ==
    [keys |-> keys, zmin |-> zmin, zmax |-> zmax, nb |-> nb, method |-> method,
     edges |-> edges, closed |-> closed, fz |-> fz]

(* config/binning.py: BinningConfig.from_dict *)
BinningFromDict(dd, carg) ==
    LET isCustom == dd.method = "custom" \/ ("edges" \in dd.keys /\ dd.edges # <<>>)
    IN IF isCustom THEN
            IF "edges" \notin dd.keys \/ "closed" \notin dd.keys
            THEN BRes("raises", "KeyError", NoBinning)
            ELSE IF Len(dd.edges) < 2 \/ ~Increasing(dd.edges) \/ dd.closed \notin KnownCloseds
            THEN BRes("raises", "ValueError", NoBinning)
            ELSE IF "CustomFromDictStrict" \in Deviations /\ dd.keys \cap {"zmin", "zmax", "nb"} # {}
            THEN BRes("raises", "TypeError", NoBinning)
            ELSE BRes("ok", "-", [method |-> "custom", nb |-> Len(dd.edges) - 1,
                                  zmin |-> dd.edges[1], zmax |-> dd.edges[Len(dd.edges)],
                                  edges |-> dd.edges, closed |-> dd.closed, gen |-> "-",
                                  fuzz |-> 0])
       ELSE BinningCreate(IF "zmin" \in dd.keys THEN dd.zmin ELSE NONE,
                          IF "zmax" \in dd.keys THEN dd.zmax ELSE NONE,
                          IF "nb" \in dd.keys THEN dd.nb ELSE 30,
                          IF "method" \in dd.keys THEN dd.method ELSE "linear",
                          IF "edges" \in dd.keys THEN dd.edges ELSE <<>>,
                          IF "closed" \in dd.keys THEN dd.closed ELSE "right",
                          carg, dd.fz)

(* config/binning.py: BinningConfig.to_dict *)
BinningToDict(b) ==
    IF b.method = "custom"
    THEN BDict({"method", "zmin", "zmax", "nb", "edges", "closed"},
               NONE, NONE, NONE, "custom", b.edges, b.closed, 0)
    ELSE BDict({"method", "zmin", "zmax", "nb", "edges", "closed"},      \* zmin = edges[0] ...
               b.zmin, b.zmax, b.nb, b.method, <<>>, b.closed, b.fuzz)

(* config/binning.py: BinningConfig.modify *)
BinningModify(b, d, carg) ==
    LET edgesGiven == d.edges # NSQ
                      /\ (d.edges # <<>> \/ "ModifyEdgesNoneIsCustom" \in Deviations)
        closed == IF d.closed = NS THEN b.closed ELSE d.closed
        noGen == d.zmin = NOTSET /\ d.zmax = NOTSET /\ d.nb = NOTSET /\ d.method = NS
        fz == IF d.zmin # NOTSET /\ d.zmax # NOTSET THEN 0 ELSE b.fuzz   \* self.zmin = edges[0]
    IN IF closed \notin KnownCloseds THEN BRes("raises", "ValueError", NoBinning)
       ELSE IF ~edgesGiven THEN
            IF d.method = "custom" THEN BRes("raises", "ConfigError", NoBinning)
            ELSE IF d.method # NS /\ d.method \notin KnownMethods
                 THEN BRes("raises", "ValueError", NoBinning)
            ELSE IF b.method = "custom" /\ noGen /\ "CustomModifyDropsEdges" \notin Deviations
                 THEN BinningFromDict(BDict({"edges", "method", "closed"}, NONE, NONE, NONE,
                                            "custom", b.edges, closed, 0), carg)
            ELSE BinningFromDict(BDict({"zmin", "zmax", "nb", "method", "closed"},
                                       IF d.zmin = NOTSET THEN b.zmin ELSE d.zmin,
                                       IF d.zmax = NOTSET THEN b.zmax ELSE d.zmax,
                                       IF d.nb = NOTSET THEN b.nb ELSE d.nb,
                                       IF d.method = NS THEN b.method ELSE d.method,
                                       <<>>, closed, fz), carg)
       ELSE BinningFromDict(BDict({"edges", "method", "closed"}, NONE, NONE, NONE,
                                  "custom", d.edges, closed, 0), carg)

(* Configuration.__init__: parse_cosmology once more, int(max_workers) *)
Construct(s, b, cid, workers) ==
    LET rc == ParseCosmology(cid) IN
    IF rc.st # "ok" THEN [st |-> "raises", err |-> rc.err, v |-> NoObj]
    ELSE [st |-> "ok", err |-> "-",
          v |-> [ok |-> TRUE, scales |-> s, binning |-> b, cosmo |-> rc.id, workers |-> workers]]

(* __eq__ of the three classes; "raises" is a possible value *)
BinningEq(a, b) == IF a = b THEN "true" ELSE "false"
ScalesEq(a, b) ==
    IF a.rmin = b.rmin /\ a.rmax = b.rmax /\ a.unit = b.unit /\ a.rw = b.rw
    THEN (IF "EqRbinNum" \in Deviations THEN "raises"
          ELSE IF a.res = b.res THEN "true" ELSE "false")
    ELSE "false"
CosmoEq(a, b) ==          \* cosmology_is_equal: "Always True for instances of CustomCosmology"
    IF a \in CustomObjects /\ b \in CustomObjects THEN "true"
    ELSE IF a \in CustomObjects \/ b \in CustomObjects THEN "false"
    ELSE IF a = b THEN "true" ELSE "false"
ConfigEq(a, b) ==          \* and-chain with short circuit
    IF BinningEq(a.binning, b.binning) = "false" THEN "false"
    ELSE IF ScalesEq(a.scales, b.scales) # "true" THEN ScalesEq(a.scales, b.scales)
    ELSE CosmoEq(a.cosmo, b.cosmo)

(* cosmology.py: Scales.get_angle_radian(z, cosmology) of the three classes; *)
(* a configuration always hands its own cosmology over                     *)
(* uses = conversions this Scales object has done before                   *)
ComputeAngle(o, uses) ==
    LET u == o.scales.unit IN
    IF u \in AngularUnits THEN                              \* AngularScales._compute_angle
        [measure |-> IF u = "rad" THEN "rad" ELSE "deg",
         div |-> CASE u = "arcmin" -> 60 [] u = "arcsec" -> 3600 [] OTHER -> 1,
         pow |-> IF "AngularInPlace" \in Deviations /\ u \in {"arcmin", "arcsec"} THEN uses + 1 ELSE 1,
         cosmo |-> o.cosmo]
    ELSE IF u \in PhysicalUnits THEN                        \* PhysicalScales._compute_angle
        [measure |-> IF "PhysicalViaComoving" \in Deviations
                     THEN "comoving_distance/(1+z)" ELSE "angular_diameter_distance",
         div |-> IF u = "kpc" THEN 1000 ELSE 1,
         pow |-> 1,
         cosmo |-> o.cosmo]
    ELSE                                                    \* ComovingScales._compute_angle
        [measure |-> "comoving_distance",
         div |-> IF u = "kpc/h" THEN 1000 ELSE 1,
         pow |-> 1,
         cosmo |-> o.cosmo]

(* Configuration.to_dict: cosmology_to_yaml *)
Serialisable(o) == o.cosmo \in {"Planck15", "WMAP9"}

(* Configuration.from_dict(to_dict(o)) *)
FromDict(o) ==
    LET rc == ParseCosmology(NameOf(o.cosmo))
        rs == ScalesCreate(o.scales.rmin, o.scales.rmax, o.scales.unit, o.scales.rw, o.scales.res)
        rb == BinningFromDict(BinningToDict(o.binning), rc.id)
    IN IF rc.st # "ok" THEN [st |-> "raises", err |-> rc.err, v |-> NoObj]
       ELSE IF rs.st # "ok" THEN [st |-> "raises", err |-> "ConfigError", v |-> NoObj]
       ELSE IF rb.st # "ok" THEN [st |-> "raises",
                                  err |-> IF rb.err \in {"TypeError", "KeyError"} THEN "ConfigError" ELSE rb.err,
                                  v |-> NoObj]
       ELSE Construct(rs.v, rb.v, rc.id, o.workers)

---------------------------------------------------------------------------
(* The program                                                             *)

Init == /\ pc = "start" /\ cur = NoObj /\ decl = NoParams /\ orig = NoObj
        /\ p0 = NoParams /\ mods = <<>> /\ tmp = NoTmp /\ last = NoLast

(* ---- Configuration.create ---- *)
BeginCreate(p) ==
    /\ pc = "start"
    /\ p0' = p
    /\ tmp' = [NoTmp EXCEPT !.op = "create", !.p = p]
    /\ pc' = "c_cosmo"
    /\ UNCHANGED <<cur, decl, orig, mods, last>>

CreateParseCosmology ==
    /\ pc = "c_cosmo"
    /\ LET tok == IF tmp.p.cosmo = "omitted" THEN NameOf(DefaultCosmo) ELSE tmp.p.cosmo
           rc == ParseCosmology(tok)
       IN /\ tmp' = [tmp EXCEPT !.rc = rc, !.step = "cosmology",
                                !.err = IF rc.st = "ok" THEN "-" ELSE rc.err]
          /\ pc' = IF rc.st = "ok" THEN "c_scales" ELSE "raise"
    /\ UNCHANGED <<cur, decl, orig, p0, mods, last>>

CreateScales ==
    /\ pc = "c_scales"
    /\ LET p == tmp.p
           rs == ScalesCreate(p.rmin, p.rmax, p.unit, p.rw, p.res)
       IN /\ tmp' = [tmp EXCEPT !.rs = rs, !.step = "scales",
                                !.err = IF rs.st = "ok" THEN "-" ELSE rs.err]
          /\ pc' = IF rs.st = "ok" THEN "c_binning" ELSE "raise"
    /\ UNCHANGED <<cur, decl, orig, p0, mods, last>>

CreateBinning ==
    /\ pc = "c_binning"
    /\ LET p == tmp.p
           rb == BinningCreate(p.zmin, p.zmax, p.nb, p.method, p.edges, p.closed, tmp.rc.id, 0)
       IN /\ tmp' = [tmp EXCEPT !.rb = rb, !.carg = tmp.rc.id, !.step = "binning",
                                !.err = IF rb.st = "ok" THEN "-" ELSE rb.err]
          /\ pc' = IF rb.st = "ok" THEN "c_construct" ELSE "raise"
    /\ UNCHANGED <<cur, decl, orig, p0, mods, last>>

CreateConstruct ==
    /\ pc = "c_construct"
    /\ LET r == Construct(tmp.rs.v, tmp.rb.v, tmp.rc.id, tmp.p.workers)
       IN /\ tmp' = [tmp EXCEPT !.new = r.v, !.step = "construct",
                                !.err = IF r.st = "ok" THEN "-" ELSE r.err]
          /\ pc' = IF r.st = "ok" THEN "o_angles" ELSE "raise"
    /\ UNCHANGED <<cur, decl, orig, p0, mods, last>>

(* ---- Configuration.modify ---- *)
BeginModify(d) ==
    /\ pc = "idle" /\ Len(mods) < MaxMods
    /\ d.rebuild = <<>>
    /\ mods' = Append(mods, d)
    /\ orig' = cur
    /\ tmp' = [NoTmp EXCEPT !.op = "modify", !.d = d]
    /\ pc' = "m_scales"
    /\ UNCHANGED <<cur, decl, p0, last>>

ModifyScales ==
    /\ pc = "m_scales"
    /\ LET rs == ScalesModify(cur.scales, tmp.d)
       IN /\ tmp' = [tmp EXCEPT !.rs = rs, !.step = "scales",
                                !.err = IF rs.st = "ok" THEN "-" ELSE rs.err]
          /\ pc' = IF rs.st = "ok" THEN "m_binning" ELSE "raise"
    /\ UNCHANGED <<cur, decl, orig, p0, mods, last>>

(* the cosmology handed to BinningConfig.modify *)
ModifyBinning ==
    /\ pc = "m_binning"
    /\ LET d == tmp.d
           raw == "ModifyPassesRawCosmology" \in Deviations
           rc == IF d.cosmo = NS THEN CRes("ok", "-", cur.cosmo) ELSE ParseCosmology(d.cosmo)
           carg == IF raw THEN d.cosmo ELSE rc.id
           rb == IF ~raw /\ rc.st # "ok" THEN BRes("raises", rc.err, NoBinning)
                 ELSE BinningModify(cur.binning, d, carg)
       IN /\ tmp' = [tmp EXCEPT !.rb = rb, !.carg = carg, !.step = "binning",
                                !.err = IF rb.st = "ok" THEN "-" ELSE rb.err]
          /\ pc' = IF rb.st = "ok" THEN "m_cosmo" ELSE "raise"
    /\ UNCHANGED <<cur, decl, orig, p0, mods, last>>

ModifyCosmology ==
    /\ pc = "m_cosmo"
    /\ LET rc == IF tmp.d.cosmo = NS THEN CRes("ok", "-", cur.cosmo) ELSE ParseCosmology(tmp.d.cosmo)
       IN /\ tmp' = [tmp EXCEPT !.rc = rc, !.step = "cosmology",
                                !.err = IF rc.st = "ok" THEN "-" ELSE rc.err]
          /\ pc' = IF rc.st = "ok" THEN "m_construct" ELSE "raise"
    /\ UNCHANGED <<cur, decl, orig, p0, mods, last>>

ModifyConstruct ==
    /\ pc = "m_construct"
    /\ LET w == IF tmp.d.workers = NOTSET THEN cur.workers ELSE tmp.d.workers
           r == Construct(tmp.rs.v, tmp.rb.v, tmp.rc.id, w)
       IN /\ tmp' = [tmp EXCEPT !.new = r.v, !.step = "construct",
                                !.err = IF r.st = "ok" THEN "-" ELSE r.err]
          /\ pc' = IF r.st = "ok" THEN "o_angles" ELSE "raise"
    /\ UNCHANGED <<cur, decl, orig, p0, mods, last>>

(* ---- Configuration(scales, binning, cosmology, max_workers): a new      *)
(* configuration from the PARTS of the current one.  (Comoving bins are    *)
(* those of the donor's cosmology: what such an object "means" is left     *)
(* open, the model does not build it.)                                     *)
BeginRebuild(d) ==
    /\ pc = "idle" /\ Len(mods) < MaxMods
    /\ d.rebuild # <<>>
    /\ cur.binning.method # "comoving"
    /\ mods' = Append(mods, d)
    /\ orig' = cur
    /\ tmp' = [NoTmp EXCEPT !.op = "rebuild", !.d = d]
    /\ pc' = "r_construct"
    /\ UNCHANGED <<cur, decl, p0, last>>

RebuildConstruct ==
    /\ pc = "r_construct"
    /\ LET rc == ParseCosmology(tmp.d.rebuild[1])
           r == Construct(cur.scales, cur.binning, tmp.d.rebuild[1], cur.workers)
       IN /\ tmp' = [tmp EXCEPT !.rc = rc, !.new = r.v, !.step = "cosmology",
                                !.err = IF r.st = "ok" THEN "-" ELSE r.err]
          /\ pc' = IF r.st = "ok" THEN "o_angles" ELSE "raise"
    /\ UNCHANGED <<cur, decl, orig, p0, mods, last>>

OpVerdict == CASE tmp.op = "create" -> Verdict(tmp.p)
               [] tmp.op = "rebuild" -> RebuildVerdict(decl, tmp.d)
               [] OTHER -> MergeVerdict(decl, tmp.d)

(* an exception reaches the user: no new object; cur stays what it was *)
Raise ==
    /\ pc = "raise"
    /\ last' = [NoLast EXCEPT !.op = tmp.op, !.out = "rejects", !.err = tmp.err, !.step = tmp.step,
                              !.verdict = OpVerdict, !.rc = tmp.rc, !.rs = tmp.rs, !.rb = tmp.rb,
                              !.carg = tmp.carg]
    /\ pc' = IF tmp.op = "create" THEN "dead" ELSE "idle"
    /\ tmp' = NoTmp
    /\ UNCHANGED <<cur, decl, orig, p0, mods>>

(* ---- observations on the new object (tmp.new), then it becomes cur ---- *)
Schedule == IF tmp.op = "rebuild" THEN tmp.d.rebuild[2] ELSE DefaultSchedule
(* the new object of a rebuild holds the donor's Scales object itself *)
SharesScales == tmp.op = "rebuild"

(* one get_angle_radian conversion (for every probe redshift) on the next   *)
(* configuration of the schedule                                            *)
ObserveAngles ==
    /\ pc = "o_angles"
    /\ LET i == Len(tmp.obs.seq) + 1
           who == Schedule[i]
           o == IF who = "n" THEN tmp.new ELSE orig
           slot == IF who = "d" /\ ~SharesScales THEN "d" ELSE "n"    \* which Scales object
           computed == ComputeAngle(o, tmp.uses[slot])
           memo == "AngleMemoIgnoresCosmology" \in Deviations
           got == IF memo /\ tmp.memo[slot] # NoAngle THEN tmp.memo[slot] ELSE computed
       IN /\ tmp' = [tmp EXCEPT !.obs.seq = Append(@, [who |-> who, angle |-> got]),
                                !.obs.angle = IF who = "n" /\ @ = NoAngle THEN got ELSE @,
                                !.memo[slot] = IF memo /\ @ = NoAngle THEN computed ELSE @,
                                !.uses[slot] = IF "AngularInPlace" \in Deviations THEN @ + 1 ELSE @]
          /\ pc' = IF i = Len(Schedule) THEN "o_eq" ELSE "o_angles"
    /\ UNCHANGED <<cur, decl, orig, p0, mods, last>>

(* the parameters the new object is declared to stand for *)
NewDecl == IF tmp.op = "create"
           THEN (IF Verdict(tmp.p) = "accept" THEN ParamsOf(Declared(tmp.p)) ELSE ParamsOf(tmp.new))
           ELSE IF tmp.op = "rebuild"
           THEN (IF RebuildVerdict(decl, tmp.d) = "accept"
                 THEN ParamsOf(Declared(RebuildParams(decl, tmp.d.rebuild[1]))) ELSE ParamsOf(tmp.new))
           ELSE (IF MergeVerdict(decl, tmp.d) = "accept"
                 THEN ParamsOf(Declared(Merge(decl, tmp.d).p)) ELSE ParamsOf(tmp.new))

(* Configuration.create as one function (the four Create* steps)          *)
OpCreate(p) ==
    LET rc == ParseCosmology(IF p.cosmo = "omitted" THEN NameOf(DefaultCosmo) ELSE p.cosmo)
        rs == ScalesCreate(p.rmin, p.rmax, p.unit, p.rw, p.res)
        rb == BinningCreate(p.zmin, p.zmax, p.nb, p.method, p.edges, p.closed, rc.id, 0)
    IN IF rc.st = "ok" /\ rs.st = "ok" /\ rb.st = "ok"
       THEN Construct(rs.v, rb.v, rc.id, p.workers).v ELSE NoObj

(* twin = a configuration freshly created from the same (declared) parameters *)
ObserveEq ==
    /\ pc = "o_eq"
    /\ LET twin == OpCreate(NewDecl)
           n == tmp.new
       IN tmp' = [tmp EXCEPT !.obs.eqb = BinningEq(n.binning, twin.binning),
                             !.obs.eqs = ScalesEq(n.scales, twin.scales),
                             !.obs.eqc = CosmoEq(n.cosmo, twin.cosmo),
                             !.obs.eq = ConfigEq(n, twin),
                             !.obs.eqprev = IF tmp.op \in {"modify", "rebuild"} THEN ConfigEq(n, orig) ELSE "-"]
    /\ pc' = "o_todict"
    /\ UNCHANGED <<cur, decl, orig, p0, mods, last>>

ObserveToDict ==
    /\ pc = "o_todict"
    /\ tmp' = [tmp EXCEPT !.obs.todict = IF Serialisable(tmp.new) THEN "ok" ELSE "raises"]
    /\ pc' = IF Serialisable(tmp.new) THEN "o_fromdict" ELSE "finish"
    /\ UNCHANGED <<cur, decl, orig, p0, mods, last>>

ObserveFromDict ==
    /\ pc = "o_fromdict"
    /\ LET r == FromDict(tmp.new)
       IN tmp' = [tmp EXCEPT !.obs.rt = IF r.st # "ok" THEN "raises"
                                        ELSE IF r.v = tmp.new THEN "same" ELSE "differs",
                             !.obs.rterr = r.err]
    /\ pc' = "finish"
    /\ UNCHANGED <<cur, decl, orig, p0, mods, last>>

Finish ==
    /\ pc = "finish"
    /\ last' = [NoLast EXCEPT !.op = tmp.op, !.out = "ok", !.step = "done", !.verdict = OpVerdict,
                              !.rc = tmp.rc, !.rs = tmp.rs, !.rb = tmp.rb, !.carg = tmp.carg,
                              !.obs = tmp.obs]
    /\ cur' = tmp.new
    /\ decl' = NewDecl
    /\ tmp' = NoTmp
    /\ pc' = "idle"
    /\ UNCHANGED <<orig, p0, mods>>

Done == pc = "dead" \/ (pc = "idle" /\ Len(mods) = MaxMods)

(* guards first: TLC must not enumerate the parameter space in every state *)
SomeCreate == pc = "start" /\ \E p \in ParamSpace : BeginCreate(p)
SomeModify == pc = "idle" /\ Len(mods) < MaxMods /\ \E d \in DeltaSpace : BeginModify(d)
SomeRebuild == pc = "idle" /\ Len(mods) < MaxMods /\ \E d \in RebuildDeltas : BeginRebuild(d)

Next == \/ SomeCreate \/ CreateParseCosmology \/ CreateScales \/ CreateBinning \/ CreateConstruct
        \/ SomeModify \/ ModifyScales \/ ModifyBinning \/ ModifyCosmology \/ ModifyConstruct
        \/ SomeRebuild \/ RebuildConstruct
        \/ Raise \/ ObserveAngles \/ ObserveEq \/ ObserveToDict \/ ObserveFromDict \/ Finish
        \/ (Done /\ UNCHANGED vars)

Spec == Init /\ [][Next]_vars /\ WF_vars(Next)

---------------------------------------------------------------------------
(* Properties                                                              *)

AtResult == pc \in {"idle", "dead"} /\ last.op # "-"

(* create: invalid parameters are rejected, valid ones give what they say *)
Validation ==
    (AtResult /\ last.op = "create") =>
        /\ last.verdict = "reject" => last.out = "rejects"
        /\ last.verdict = "accept" => (last.out = "ok" /\ cur = Declared(p0))

(* modify = create from the merged parameters (incl. the outcome class);  *)
(* `decl` before the step is recovered from `orig`                        *)
ModifyEqualsCreate ==
    (AtResult /\ last.op = "modify") =>
        LET d == mods[Len(mods)]
            m == Merge(ParamsOf(orig), d)
        IN /\ last.verdict = "reject" => (last.out = "rejects" /\ cur = orig)
           /\ last.verdict = "accept" => (last.out = "ok" /\ cur = Declared(m.p))

(* a configuration built from the parts of another one with cosmology c is *)
(* the configuration of the donor's parameters with cosmology c            *)
RebuildEqualsCreate ==
    (AtResult /\ last.op = "rebuild") =>
        LET d == mods[Len(mods)]
            p == RebuildParams(ParamsOf(orig), d.rebuild[1])
        IN /\ last.verdict = "reject" => (last.out = "rejects" /\ cur = orig)
           /\ last.verdict = "accept" => (last.out = "ok" /\ cur = Declared(p))

(* an operation never changes the object it was applied to *)
OriginalUnchanged ==
    (pc \notin {"start", "idle", "dead", "c_cosmo", "c_scales", "c_binning", "c_construct"}
        /\ tmp.op \in {"modify", "rebuild"}) => cur = orig

(* whatever exists is a well-formed configuration whose comoving edges are *)
(* those of ITS cosmology                                                  *)
WellFormed ==
    cur.ok =>
        /\ cur.binning.nb >= 1 /\ cur.binning.zmin < cur.binning.zmax
        /\ cur.binning.method \in KnownMethods /\ cur.binning.closed \in KnownCloseds
        /\ cur.binning.method = "custom" =>
              /\ Len(cur.binning.edges) = cur.binning.nb + 1 /\ Increasing(cur.binning.edges)
        /\ cur.binning.gen = (IF cur.binning.method = "comoving" THEN cur.cosmo ELSE "-")
        /\ cur.binning.fuzz = 0                          \* spanning exactly [zmin, zmax]
        /\ cur.scales.unit \in KnownUnits
        /\ Len(cur.scales.rmin) = Len(cur.scales.rmax)
        /\ \A i \in 1..Len(cur.scales.rmin) : cur.scales.rmin[i] < cur.scales.rmax[i]
        /\ cur.cosmo \in CosmoObjects
        /\ cur = Declared(decl)

(* equal parameters compare equal (and the comparison does not raise) *)
EqualParamsCompareEqual ==
    (AtResult /\ last.out = "ok" /\ last.verdict = "accept") => last.obs.eq = "true"

EqNeverRaises ==
    (AtResult /\ last.out = "ok") => (last.obs.eq # "raises" /\ last.obs.eqprev # "raises")

(* a configuration rebuilt from its own dictionary is the same one *)
RoundTripIdentity ==
    (AtResult /\ last.out = "ok" /\ last.obs.todict = "ok") => last.obs.rt = "same"

(* scale limits become angles as r / D(z): D = the unit's distance measure  *)
(* of the configuration's cosmology (or a measure that is the same there)  *)
(* EVERY observation: angle conversions are pure (no effect on later ones   *)
(* of the same configuration or of one sharing its parts)                  *)
AnglesUseConfiguredCosmology ==
    (AtResult /\ last.out = "ok") =>
        /\ Len(last.obs.seq) >= 2
        /\ \A i \in 1..Len(last.obs.seq) :
              SameAngles(last.obs.seq[i].angle,
                         AngleSpec(IF last.obs.seq[i].who = "n" THEN cur ELSE orig))
        /\ SameAngles(last.obs.angle, AngleSpec(cur))

TypeOK ==
    /\ pc \in {"start", "c_cosmo", "c_scales", "c_binning", "c_construct", "idle", "m_scales",
               "m_binning", "m_cosmo", "m_construct", "r_construct", "raise", "dead", "o_angles", "o_eq",
               "o_todict", "o_fromdict", "finish"}
    /\ Len(mods) <= MaxMods
    /\ cur.ok \in BOOLEAN

Termination == <>Done

---------------------------------------------------------------------------
(* Case output for the replay driver: one line per completed public        *)
(* operation (compact: only the set keys of the deltas)                    *)

CompactDelta(d) ==
    (IF d.rmin # NSQ THEN << <<"rmin", d.rmin>> >> ELSE <<>>) \o
    (IF d.rmax # NSQ THEN << <<"rmax", d.rmax>> >> ELSE <<>>) \o
    (IF d.unit # NS THEN << <<"unit", d.unit>> >> ELSE <<>>) \o
    (IF d.rw # NOTSET THEN << <<"rw", d.rw>> >> ELSE <<>>) \o
    (IF d.res # NOTSET THEN << <<"res", d.res>> >> ELSE <<>>) \o
    (IF d.zmin # NOTSET THEN << <<"zmin", d.zmin>> >> ELSE <<>>) \o
    (IF d.zmax # NOTSET THEN << <<"zmax", d.zmax>> >> ELSE <<>>) \o
    (IF d.nb # NOTSET THEN << <<"nb", d.nb>> >> ELSE <<>>) \o
    (IF d.method # NS THEN << <<"method", d.method>> >> ELSE <<>>) \o
    (IF d.edges # NSQ THEN << <<"edges", d.edges>> >> ELSE <<>>) \o
    (IF d.closed # NS THEN << <<"closed", d.closed>> >> ELSE <<>>) \o
    (IF d.cosmo # NS THEN << <<"cosmo", d.cosmo>> >> ELSE <<>>) \o
    (IF d.workers # NOTSET THEN << <<"workers", d.workers>> >> ELSE <<>>) \o
    (IF d.rebuild # <<>> THEN << <<"rebuild", d.rebuild>> >> ELSE <<>>)

CompactParams(p) ==
    <<p.rmin, p.rmax, p.unit, p.rw, p.res, p.zmin, p.zmax, p.nb, p.method, p.edges,
      p.closed, p.cosmo, p.workers>>

CompactObj(o) ==
    IF ~o.ok THEN <<>> ELSE
    <<o.scales.rmin, o.scales.rmax, o.scales.unit, o.scales.rw, o.scales.res,
      o.binning.method, o.binning.nb, o.binning.zmin, o.binning.zmax, o.binning.edges,
      o.binning.closed, o.binning.gen, o.binning.fuzz, o.cosmo, o.workers>>

CompactBinning(b) == <<b.method, b.nb, b.zmin, b.zmax, b.edges, b.closed, b.gen, b.fuzz>>
CompactScales(s) == <<s.rmin, s.rmax, s.unit, s.rw, s.res>>

CaseLine ==
    <<"case", CompactParams(p0), [i \in 1..Len(mods) |-> CompactDelta(mods[i])],
      <<last.op, last.out, last.err, last.step, last.verdict>>,
      CompactObj(cur), CompactParams(decl),
      <<last.rs.st, last.rs.err, CompactScales(last.rs.v)>>,
      <<last.rb.st, last.rb.err, CompactBinning(last.rb.v), last.carg>>,
      <<last.rc.st, last.rc.err, last.rc.id>>,
      <<last.obs.angle.measure, last.obs.angle.div, last.obs.angle.cosmo,
        IF last.obs.angle.cosmo = "-" THEN "-"
        ELSE IF DistanceIdentity(last.obs.angle.cosmo) THEN "DA=DC/(1+z)" ELSE "independent">>,
      <<last.obs.eqb, last.obs.eqs, last.obs.eqc, last.obs.eq, last.obs.eqprev>>,
      <<last.obs.todict, last.obs.rt, last.obs.rterr>>,
      [i \in 1..Len(last.obs.seq) |->
          <<last.obs.seq[i].who, last.obs.seq[i].angle.measure, last.obs.seq[i].angle.div,
            last.obs.seq[i].angle.pow, last.obs.seq[i].angle.cosmo>>] >>

(* one physical line per case: lines of different TLC workers may interleave *)
PrintCases == AtResult => PrintT(ToString(CaseLine))
=============================================================================
