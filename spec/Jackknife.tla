------------------------------ MODULE Jackknife ------------------------------
(***************************************************************************)
(* C03 - jackknife sample k is the statistic with patch k left out.        *)
(*                                                                         *)
(* A workspace holds the containers of yet_another_wizz that carry         *)
(* patch-wise data:                                                        *)
(*                                                                         *)
(*   store.cnt[<<f, m>>][b][i][j]  PatchedCounts.counts of member m in     *)
(*                                 {"dd","dr","rd","rr"} of CorrFunc f     *)
(*   store.wt[<<f, r>>][b][i]      per-patch sum of weights of catalog     *)
(*                                 role r; member m of f owns              *)
(*                                 PatchedSumWeights(sum_weights1 =        *)
(*                                 wt[f, R1(m)], sum_weights2 = wt[f,      *)
(*                                 R2(m)], auto = IsAuto)                  *)
(*   store.hst[p][b]               histogram of patch p of a Catalog       *)
(*                                                                         *)
(* and the public operations are programs over it (one action per step of  *)
(* the code):                                                              *)
(*                                                                         *)
(*   op <<"counts",f,m>>  PatchedCounts.sample_patch_sum()                 *)
(*   op <<"sumw",f,m>>    PatchedSumWeights.sample_patch_sum()             *)
(*        GetArray    bin_patch_array = self.get_array()                   *)
(*                      PatchedCounts: the counts array ITSELF (alias)     *)
(*                      PatchedSumWeights: einsum("bi,bj->bij") [+ triu,   *)
(*                      halved diagonal when auto] (fresh array; modelled  *)
(*                      doubled, so that halves stay integers)             *)
(*        SumPatches  sum_patches = einsum("bij->b")                       *)
(*        RowSum      row_sum = einsum("bij->jb")                          *)
(*        ColSum      col_sum = einsum("bij->ib")                          *)
(*        Diag        diag = einsum("bii->ib")                             *)
(*        Combine     samples = tile(sum) - row_sum - col_sum + diag       *)
(*   op <<"norm",f,m>>    NormalisedCounts.sample_patch_sum()              *)
(*        = counts program, sumw program, then                             *)
(*        Ratio       data = counts.data / sum_weights.data                *)
(*                    samples = counts.samples / sum_weights.samples       *)
(*   op <<"corr",f,"-">>  CorrFunc.sample()                                *)
(*        = norm program for every member in the order dd, dr, rd, rr,     *)
(*        Estimate    estimator(values), estimator(samples) [kwargs]      *)
(*                    (Landy-Szalay if rr exists, else Davis-Peebles; rr   *)
(*                    without dr: no formula prescribed = undefined)       *)
(*   op <<"nz","-","-">>  RedshiftData.from_corrfuncs(cross, ref, unk)     *)
(*        = corr programs of "cross", "ref", "unk" (those that exist),     *)
(*        Redshift    from_corrdata: w_sp / sqrt(dz^2 w_ss w_pp), with     *)
(*                    dz2_samples = tile(dz2, N).reshape((N, -1))          *)
(*   op <<"io",f,"-">>    CorrFunc.to_file(); CorrFunc.from_file()         *)
(*        WriteRead   the object read back replaces the object (explored   *)
(*                    only where something is sampled afterwards)          *)
(*   op <<"hist","-","-">> HistData.from_catalog(catalog, config, W)       *)
(*        HistStart   counts = np.empty(...); pool of W workers            *)
(*        HDispatch / HComplete   iter_unordered: the result of patch t    *)
(*                    arrives in completion order and is stored in row t   *)
(*        HistSum     counts.sum(axis=0)                                   *)
(*        HistResample  resample_jackknife: tile / delete / reshape / sum  *)
(*   every result additionally carries SampledData.covariance              *)
(*   (cov_from_samples) where the samples are integral.                    *)
(* Level selects which operations are combined into histories of MaxOps    *)
(* operations on the SAME objects (OpsOf); every terminal state is printed *)
(* (PrintBeh) and replayed on the real library by checks/c03.py.           *)
(*                                                                         *)
(* The property compares every result with the statistic RECOMPUTED FROM   *)
(* SCRATCH from the original data restricted to the kept patches           *)
(* K = Patches \ {k}  (operators *Of below): no total-minus-row-minus-     *)
(* column trick, no product matrix - plain sums over K, the normalisation  *)
(* as (sum w1)(sum w2) resp. (sum w)^2/2, the estimator on top.            *)
(*                                                                         *)
(* Numbers: counts, weights small naturals; everything derived is an exact *)
(* rational <<num, den>> in lowest terms (den > 0); <<0,0>> = undefined    *)
(* (division by zero / root of a non-positive number: the code produces    *)
(* nan/inf there).  The redshift estimate is carried as sign * n^2.        *)
(*                                                                         *)
(* Deviations (departures of a code version from the design; each must     *)
(* yield a TLC counterexample that is then replayed on the real code):     *)
(*   "HistDeleteFirstBlock" resample_jackknife deletes positions 0..N-1    *)
(*                          of the tiled index array instead of k*(N+1):   *)
(*                          sample k leaves out patch N-1-k   (found: P2)  *)
(*   "HistArrivalRows"      histogram rows stored at the arrival position  *)
(*                          (found earlier: P1, fixed)                     *)
(*   "InPlaceDiagView"      samples accumulated in the einsum diagonal     *)
(*                          VIEW of the aliased counts array: sampling     *)
(*                          rewrites the diagonal of the container         *)
(*   "NoDiagAddBack"        the diagonal is not added back                 *)
(*   "AutoFullMatrix"       auto normalisation without triu                *)
(*   "AutoNoHalfDiag"       auto normalisation without halved diagonal     *)
(*   "NormByTotal"          count samples divided by the TOTAL weights     *)
(*   "EstimateDDFromTotals" estimator samples use the total dd term        *)
(*   "Dz2Scrambled"         dz2_samples = repeat(dz2, N).reshape(N, -1)    *)
(***************************************************************************)
EXTENDS Integers, Sequences, FiniteSets, TLC

CONSTANTS NP,         \* number of patches (>= 2)
          NB,         \* number of redshift bins (>= 1)
          CVals,      \* values of a pair-count cell
          WVals,      \* values of a per-patch sum of weights
          HVals,      \* values of a histogram cell
          Level,      \* "counts" | "sumw" | "norm" | "corr" | "nz" | "hist" ("trace": JackknifeTrace)
          FAuto,      \* [CorrFunc name -> BOOLEAN] (autocorrelation?)
          FMembers,   \* [CorrFunc name -> subset of {"dd","dr","rd","rr"}]
          DZ,         \* <<dz_1, ..., dz_NB>> bin widths (small naturals)
          NSample,    \* 0: every data set over CVals/WVals; n > 0: n pseudo-random data sets
          Seed,       \* selects the pseudo-random data sets
          MaxOps,     \* operations per history
          MaxW,       \* pool sizes 1..MaxW (hist)
          Deviations

VARIABLES store,      \* the containers (may be changed by an operation: deviations)
          orig,       \* the data as created (never changes)
          hist,       \* operations started so far
          results,    \* their results
          work,       \* remaining steps (tasks) of the running operation
          pc,         \* step inside the current task
          tmp,        \* local variables of sample_patch_sum
          parts,      \* results of finished tasks of the running operation
          h           \* pool / row state of HistData.from_catalog

vars == <<store, orig, hist, results, work, pc, tmp, parts, h>>

Patches == 1..NP
Bins == 1..NB
Funcs == DOMAIN FAuto
Objs == UNION { { <<f, m>> : m \in FMembers[f] } : f \in Funcs }

ASSUME NP >= 2 /\ NB >= 1 /\ Len(DZ) >= NB
ASSUME \A f \in Funcs :
          /\ "dd" \in FMembers[f]
          /\ FMembers[f] \subseteq {"dd", "dr", "rd", "rr"}
          /\ FAuto[f] => "rd" \notin FMembers[f]

---------------------------------------------------------------------------
(* catalog roles behind the two sides of a member                          *)
(*   crosscorrelate: dd = (ref, unk), dr = (ref, unk_rand),                *)
(*                   rd = (ref_rand, unk), rr = (ref_rand, unk_rand)       *)
(*   autocorrelate : dd = (data, data) auto, dr = (data, rand) NOT auto,   *)
(*                   rr = (rand, rand) auto                                *)
R1(o) == IF FAuto[o[1]] THEN (IF o[2] \in {"dd", "dr"} THEN "d" ELSE "r")
         ELSE (IF o[2] \in {"dd", "dr"} THEN "d1" ELSE "r1")
R2(o) == IF FAuto[o[1]] THEN (IF o[2] \in {"dd", "rd"} THEN "d" ELSE "r")
         ELSE (IF o[2] \in {"dd", "rd"} THEN "d2" ELSE "r2")
IsAuto(o) == FAuto[o[1]] /\ o[2] \in {"dd", "rr"}
WKeys == UNION { { <<o[1], R1(o)>>, <<o[1], R2(o)>> } : o \in Objs }

---------------------------------------------------------------------------
(* exact rationals *)
Abs(x) == IF x < 0 THEN -x ELSE x
RECURSIVE GCD(_, _)
GCD(a, b) == IF b = 0 THEN a ELSE GCD(b, a % b)
Undef == <<0, 0>>
IsDef(r) == r[2] # 0
Q(n, d) == IF d = 0 THEN Undef
           ELSE LET g == GCD(Abs(n), Abs(d))
                    s == IF d < 0 THEN -1 ELSE 1
                IN <<s * (n \div g), s * (d \div g)>>
RNeg(x) == IF IsDef(x) THEN <<-x[1], x[2]>> ELSE Undef
RAdd(x, y) == IF ~IsDef(x) \/ ~IsDef(y) THEN Undef
              ELSE LET g == GCD(x[2], y[2])
                   IN Q(x[1] * (y[2] \div g) + y[1] * (x[2] \div g), (x[2] \div g) * y[2])
RSub(x, y) == RAdd(x, RNeg(y))
RMul(x, y) == IF ~IsDef(x) \/ ~IsDef(y) THEN Undef
              ELSE LET g1 == GCD(Abs(x[1]), y[2])
                       g2 == GCD(Abs(y[1]), x[2])
                   IN Q((x[1] \div g1) * (y[1] \div g2), (x[2] \div g2) * (y[2] \div g1))
RDiv(x, y) == IF ~IsDef(x) \/ ~IsDef(y) THEN Undef
              ELSE IF y[1] = 0 THEN Undef
              ELSE RMul(x, IF y[1] > 0 THEN <<y[2], y[1]>> ELSE <<-y[2], -y[1]>>)

RECURSIVE SumF(_, _)
SumF(f, S) == IF S = {} THEN 0
              ELSE LET i == CHOOSE i \in S : TRUE IN f[i] + SumF(f, S \ {i})

(* CorrFunc.sample: Landy-Szalay if rr exists (rd defaults to dr), else Davis-Peebles *)
Estimator(M, v) ==
    IF "rr" \in M /\ "dr" \notin M
    THEN Undef    \* no formula prescribed for rr without dr (the code rejects it): any outcome conforms
    ELSE IF "rr" \in M
    THEN LET rd == IF "rd" \in M THEN v["rd"] ELSE v["dr"]
         IN RDiv(RAdd(RSub(v["dd"], v["dr"]), RSub(v["rr"], rd)), v["rr"])
    ELSE LET mixed == IF "rd" \in M THEN v["rd"] ELSE v["dr"]
         IN RDiv(RSub(v["dd"], mixed), mixed)

(* n(z) = w_sp / sqrt(dz^2 w_ss w_pp), carried as sign * n^2 *)
NzVal(wsp, wss, wpp, dz) ==
    LET den == RMul(<<dz * dz, 1>>, RMul(wss, wpp))
    IN IF ~IsDef(wsp) \/ ~IsDef(den) THEN Undef
       ELSE IF den[1] <= 0 THEN Undef
       ELSE LET sq == RDiv(RMul(wsp, wsp), den)
            IN IF wsp[1] < 0 THEN RNeg(sq) ELSE sq

(* SampledData.covariance for integral samples x[k][b]:                    *)
(* (N-1)/N * sum_k (x_k - mean)(x_k - mean)^T                              *)
(*   = (N-1) * sum_k (N x_k[a] - S[a]) (N x_k[b] - S[b]) / N^3             *)
CovNum(x, a, b) ==
    LET S(c) == SumF([k \in Patches |-> x[k][c]], Patches)
    IN (NP - 1) * SumF([k \in Patches |-> (NP * x[k][a] - S(a)) * (NP * x[k][b] - S(b))], Patches)
(* kept unreduced: <<numerator, N^3 scale^2>> (one common denominator) *)
CovOf(x, scale) == [a \in Bins |-> [b \in Bins |-> <<CovNum(x, a, b), NP * NP * NP * scale * scale>>]]

---------------------------------------------------------------------------
(* THE PROPERTY'S SIDE: the statistic recomputed from scratch from the     *)
(* original data restricted to the kept patches K                          *)
CntOf(o, b, K) == SumF([i \in K |-> SumF([j \in K |-> orig.cnt[o][b][i][j]], K)], K)
WSumOf(f, r, b, K) == SumF([i \in K |-> orig.wt[<<f, r>>][b][i]], K)
(* twice the number of (weighted) pairs: cross (sum w1)(sum w2), auto (sum w)^2 / 2 *)
Norm2Of(o, b, K) == IF IsAuto(o)
                    THEN WSumOf(o[1], R1(o), b, K) * WSumOf(o[1], R1(o), b, K)
                    ELSE 2 * WSumOf(o[1], R1(o), b, K) * WSumOf(o[1], R2(o), b, K)
NormedOf(o, b, K) == Q(2 * CntOf(o, b, K), Norm2Of(o, b, K))
EstOf(f, b, K) == Estimator(FMembers[f], [m \in FMembers[f] |-> NormedOf(<<f, m>>, b, K)])
NzOf(b, K) == NzVal(EstOf("cross", b, K),
                    IF "ref" \in Funcs THEN EstOf("ref", b, K) ELSE <<1, 1>>,
                    IF "unk" \in Funcs THEN EstOf("unk", b, K) ELSE <<1, 1>>,
                    DZ[b])
HistOf(b, K) == SumF([p \in K |-> orig.hst[p][b]], K)

StatOf(op, b, K) ==
    CASE op[1] = "counts" -> <<CntOf(<<op[2], op[3]>>, b, K), 1>>
      [] op[1] = "sumw"   -> Q(Norm2Of(<<op[2], op[3]>>, b, K), 2)
      [] op[1] = "norm"   -> NormedOf(<<op[2], op[3]>>, b, K)
      [] op[1] = "corr"   -> EstOf(op[2], b, K)
      [] op[1] = "nz"     -> NzOf(b, K)
      [] op[1] = "hist"   -> <<HistOf(b, K), 1>>

ExpData(op) == IF op[1] = "io" THEN <<>> ELSE [b \in Bins |-> StatOf(op, b, Patches)]
ExpSamples(op) == IF op[1] = "io" THEN <<>>
                  ELSE [k \in Patches |-> [b \in Bins |-> StatOf(op, b, Patches \ {k})]]

---------------------------------------------------------------------------
(* THE CODE'S SIDE *)

(* PatchedSumWeights.get_array(), doubled *)
ProdArr(o) ==
    LET a == store.wt[<<o[1], R1(o)>>]
        c == store.wt[<<o[1], R2(o)>>]
    IN [b \in Bins |-> [i \in Patches |-> [j \in Patches |->
          IF ~IsAuto(o) THEN 2 * a[b][i] * c[b][j]
          ELSE IF i < j THEN 2 * a[b][i] * c[b][j]
          ELSE IF i = j THEN (IF "AutoNoHalfDiag" \in Deviations THEN 2 ELSE 1) * a[b][i] * c[b][j]
          ELSE IF "AutoFullMatrix" \in Deviations THEN 2 * a[b][i] * c[b][j]
          ELSE 0]]]

MemberOrder == <<"dd", "dr", "rd", "rr">>
NormProg(f, m) == << <<"counts", f, m>>, <<"sumw", f, m>>, <<"ratio", f, m>> >>
RECURSIVE CorrProgFrom(_, _)
CorrProgFrom(f, n) == IF n > 4 THEN << <<"est", f, "-">> >>
                      ELSE (IF MemberOrder[n] \in FMembers[f] THEN NormProg(f, MemberOrder[n]) ELSE <<>>)
                           \o CorrProgFrom(f, n + 1)
CorrProg(f) == CorrProgFrom(f, 1)
NzProg == CorrProg("cross")
          \o (IF "ref" \in Funcs THEN CorrProg("ref") ELSE <<>>)
          \o (IF "unk" \in Funcs THEN CorrProg("unk") ELSE <<>>)
          \o << <<"nzf", "-", "-">> >>

Program(op) ==
    CASE op[1] = "counts" -> << op >>
      [] op[1] = "sumw"   -> << op >>
      [] op[1] = "norm"   -> NormProg(op[2], op[3])
      [] op[1] = "corr"   -> CorrProg(op[2])
      [] op[1] = "nz"     -> NzProg
      [] op[1] = "io"     -> << op >>
      [] op[1] = "hist"   -> << op >>

OpsOf ==
    CASE Level = "counts" -> { <<"counts", o[1], o[2]>> : o \in Objs }
      [] Level = "sumw"   -> { <<"sumw", o[1], o[2]>> : o \in Objs }
      [] Level = "norm"   -> { <<"norm", o[1], o[2]>> : o \in Objs } \cup { <<"counts", o[1], o[2]>> : o \in Objs }
      [] Level = "corr"   -> { <<"corr", f, "-">> : f \in Funcs } \cup { <<"io", f, "-">> : f \in Funcs }
      [] Level = "nz"     -> { <<"nz", "-", "-">>, <<"corr", "cross", "-">>, <<"io", "cross", "-">> }
      [] Level = "hist"   -> { <<"hist", "-", "-">> }
      [] OTHER            -> {}

NoTmp == [arr |-> <<>>, alias |-> FALSE, total |-> <<>>, row |-> <<>>, col |-> <<>>, diag |-> <<>>]
NoPool == [W |-> 0, next |-> 0, running |-> <<>>, arrived |-> <<>>, rows |-> <<>>]

CntSet == [Objs -> [Bins -> [Patches -> [Patches -> CVals]]]]
WtSet == [WKeys -> [Bins -> [Patches -> WVals]]]
HstSet == IF Level = "hist" THEN [Patches -> [Bins -> HVals]] ELSE { <<>> }

(* deterministic pseudo-random data sets (the exhaustive sets are far too  *)
(* large from the "corr" level on): data set s gets cell values from a     *)
(* small integer hash of (Seed, s, cell); s also selects the sparsity of   *)
(* the pair counts (dense / about half / mostly zero cells)                *)
Mix(x) == LET y == x % 32749 IN (y * y + 12345 * y + 7) % 32749
Hash(s, c) == Mix(Mix(Mix(Seed * 131 + s) + c * 257) + s * 31 + c)
RECURSIVE Nth(_, _)
Nth(S, n) == LET m == CHOOSE x \in S : \A y \in S : x <= y
             IN IF n = 0 THEN m ELSE Nth(S \ {m}, n - 1)
PickVal(S, s, c) == Nth(S, Hash(s, c) % Cardinality(S))
FuncIdx(f) == CASE f = "ref" -> 1 [] f = "unk" -> 2 [] OTHER -> 0
MemIdx(m) == CASE m = "dd" -> 0 [] m = "dr" -> 1 [] m = "rd" -> 2 [] OTHER -> 3
RoleIdx(r) == CASE r \in {"d", "d1"} -> 0 [] r = "d2" -> 1 [] r \in {"r", "r1"} -> 2 [] OTHER -> 3
Zeroed(s, c) == (Hash(s + 7919, c) % 10) < (CASE s % 3 = 0 -> 0 [] s % 3 = 1 -> 5 [] OTHER -> 8)
RndCnt(s) == [o \in Objs |-> [b \in Bins |-> [i \in Patches |-> [j \in Patches |->
                LET c == (((FuncIdx(o[1]) * 4 + MemIdx(o[2])) * NB + (b - 1)) * NP + (i - 1)) * NP + (j - 1)
                IN IF Zeroed(s, c) THEN 0 ELSE PickVal(CVals, s, c)]]]]
RndWt(s) == [k \in WKeys |-> [b \in Bins |-> [i \in Patches |->
                LET c == 5000 + ((FuncIdx(k[1]) * 4 + RoleIdx(k[2])) * NB + (b - 1)) * NP + (i - 1)
                IN PickVal(WVals, s, c)]]]
RndHst(s) == IF Level # "hist" THEN <<>>
             ELSE [p \in Patches |-> [b \in Bins |->
                     LET c == 9000 + (p - 1) * NB + (b - 1)
                     IN IF Zeroed(s, c) THEN 0 ELSE PickVal(HVals, s, c)]]

Init ==
    /\ \/ /\ NSample = 0
          /\ \E c \in CntSet, w \in WtSet, hs \in HstSet : store = [cnt |-> c, wt |-> w, hst |-> hs]
       \/ /\ NSample > 0
          /\ \E s \in 1..NSample : store = [cnt |-> RndCnt(s), wt |-> RndWt(s), hst |-> RndHst(s)]
    /\ orig = store
    /\ hist = <<>> /\ results = <<>> /\ work = <<>> /\ pc = "idle"
    /\ tmp = NoTmp /\ parts = <<>> /\ h = NoPool

cur == Head(work)
curObj == <<cur[2], cur[3]>>

StartOp(op) ==
    /\ pc = "idle" /\ Len(hist) < MaxOps
    \* a file round trip is only explored where something is sampled afterwards
    /\ IF op[1] # "io" THEN TRUE
       ELSE /\ Len(hist) + 1 < MaxOps
            /\ (IF hist = <<>> THEN TRUE ELSE hist[Len(hist)][1] # "io")
    /\ hist' = Append(hist, op)
    /\ work' = Program(op)
    /\ parts' = <<>>
    /\ pc' = "task"
    /\ UNCHANGED <<store, orig, results, tmp, h>>

(* --- sample_patch_sum ------------------------------------------------- *)
GetArray ==
    /\ pc = "task" /\ work # <<>> /\ cur[1] \in {"counts", "sumw"}
    /\ tmp' = [NoTmp EXCEPT !.arr = IF cur[1] = "counts" THEN store.cnt[curObj] ELSE ProdArr(curObj),
                            !.alias = (cur[1] = "counts")]
    /\ pc' = "sum"
    /\ UNCHANGED <<store, orig, hist, results, work, parts, h>>

SumPatches ==
    /\ pc = "sum"
    /\ tmp' = [tmp EXCEPT !.total = [b \in Bins |->
                  SumF([i \in Patches |-> SumF([j \in Patches |-> tmp.arr[b][i][j]], Patches)], Patches)]]
    /\ pc' = "row"
    /\ UNCHANGED <<store, orig, hist, results, work, parts, h>>

RowSum ==       \* einsum("bij->jb")
    /\ pc = "row"
    /\ tmp' = [tmp EXCEPT !.row = [j \in Patches |-> [b \in Bins |->
                  SumF([i \in Patches |-> tmp.arr[b][i][j]], Patches)]]]
    /\ pc' = "col"
    /\ UNCHANGED <<store, orig, hist, results, work, parts, h>>

ColSum ==       \* einsum("bij->ib")
    /\ pc = "col"
    /\ tmp' = [tmp EXCEPT !.col = [i \in Patches |-> [b \in Bins |->
                  SumF([j \in Patches |-> tmp.arr[b][i][j]], Patches)]]]
    /\ pc' = "diag"
    /\ UNCHANGED <<store, orig, hist, results, work, parts, h>>

Diag ==         \* einsum("bii->ib")
    /\ pc = "diag"
    /\ tmp' = [tmp EXCEPT !.diag = [i \in Patches |-> [b \in Bins |-> tmp.arr[b][i][i]]]]
    /\ pc' = "combine"
    /\ UNCHANGED <<store, orig, hist, results, work, parts, h>>

Combine ==
    /\ pc = "combine"
    /\ LET samples == [k \in Patches |-> [b \in Bins |->
                          tmp.total[b] - tmp.row[k][b] - tmp.col[k][b]
                          + (IF "NoDiagAddBack" \in Deviations THEN 0 ELSE tmp.diag[k][b])]]
       IN /\ parts' = (cur :> [data |-> tmp.total, samples |-> samples]) @@ parts
          /\ store' = IF tmp.alias /\ "InPlaceDiagView" \in Deviations
                      THEN [store EXCEPT !.cnt[curObj] = [b \in Bins |-> [i \in Patches |-> [j \in Patches |->
                                IF i = j THEN samples[i][b] ELSE @[b][i][j]]]]]
                      ELSE store
    /\ work' = Tail(work)
    /\ pc' = "task"
    /\ tmp' = NoTmp
    /\ UNCHANGED <<orig, hist, results, h>>

(* --- NormalisedCounts.sample_patch_sum: the two divisions -------------- *)
Ratio ==
    /\ pc = "task" /\ work # <<>> /\ cur[1] = "ratio"
    /\ LET c == parts[<<"counts", cur[2], cur[3]>>]
           w == parts[<<"sumw", cur[2], cur[3]>>]
       IN parts' = (cur :> [data |-> [b \in Bins |-> Q(2 * c.data[b], w.data[b])],
                            samples |-> [k \in Patches |-> [b \in Bins |->
                                Q(2 * c.samples[k][b],
                                  IF "NormByTotal" \in Deviations THEN w.data[b] ELSE w.samples[k][b])]]])
                   @@ parts
    /\ work' = Tail(work)
    /\ UNCHANGED <<store, orig, hist, results, pc, tmp, h>>

(* --- CorrFunc.sample: estimator on values and on samples ---------------- *)
Estimate ==
    /\ pc = "task" /\ work # <<>> /\ cur[1] = "est"
    /\ LET f == cur[2]
           M == FMembers[f]
           v(m) == parts[<<"ratio", f, m>>]
       IN parts' = (cur :> [data |-> [b \in Bins |-> Estimator(M, [m \in M |-> v(m).data[b]])],
                            samples |-> [k \in Patches |-> [b \in Bins |->
                                Estimator(M, [m \in M |->
                                    IF m = "dd" /\ "EstimateDDFromTotals" \in Deviations
                                    THEN v(m).data[b] ELSE v(m).samples[k][b]])]]])
                   @@ parts
    /\ work' = Tail(work)
    /\ UNCHANGED <<store, orig, hist, results, pc, tmp, h>>

(* --- RedshiftData.from_corrdata ----------------------------------------- *)
DzSample(k, b) == IF "Dz2Scrambled" \in Deviations
                  THEN DZ[(((k - 1) * NB + (b - 1)) \div NP) + 1]   \* repeat(dz2, N).reshape(N, NB)
                  ELSE DZ[b]                                        \* tile(dz2, N).reshape(N, NB)
Redshift ==
    /\ pc = "task" /\ work # <<>> /\ cur[1] = "nzf"
    /\ LET sp == parts[<<"est", "cross", "-">>]
           one == [data |-> [b \in Bins |-> <<1, 1>>], samples |-> [k \in Patches |-> [b \in Bins |-> <<1, 1>>]]]
           ss == IF "ref" \in Funcs THEN parts[<<"est", "ref", "-">>] ELSE one
           pp == IF "unk" \in Funcs THEN parts[<<"est", "unk", "-">>] ELSE one
       IN parts' = (cur :> [data |-> [b \in Bins |-> NzVal(sp.data[b], ss.data[b], pp.data[b], DZ[b])],
                            samples |-> [k \in Patches |-> [b \in Bins |->
                                NzVal(sp.samples[k][b], ss.samples[k][b], pp.samples[k][b], DzSample(k, b))]]])
                   @@ parts
    /\ work' = Tail(work)
    /\ UNCHANGED <<store, orig, hist, results, pc, tmp, h>>

(* --- CorrFunc.to_file + from_file: the object read back replaces it ------ *)
WriteRead ==
    /\ pc = "task" /\ work # <<>> /\ cur[1] = "io"
    /\ store' = store          \* Read(Write(x)) = x
    /\ parts' = (cur :> [data |-> <<>>, samples |-> <<>>]) @@ parts
    /\ work' = Tail(work)
    /\ UNCHANGED <<orig, hist, results, pc, tmp, h>>

(* --- HistData.from_catalog ---------------------------------------------- *)
HistStart ==
    /\ pc = "task" /\ work # <<>> /\ cur[1] = "hist"
    /\ \E w \in 1..MaxW :
         h' = [W |-> w, next |-> 1, running |-> [i \in 1..w |-> 0], arrived |-> <<>>,
               rows |-> [p \in Patches |-> [b \in Bins |-> -1]]]    \* np.empty
    /\ pc' = "pool"
    /\ UNCHANGED <<store, orig, hist, results, work, tmp, parts>>

HDispatch(i) ==
    /\ pc = "pool" /\ h.running[i] = 0 /\ h.next <= NP
    /\ h' = [h EXCEPT !.running[i] = h.next, !.next = h.next + 1]
    /\ UNCHANGED <<store, orig, hist, results, work, pc, tmp, parts>>

HComplete(i) ==
    /\ pc = "pool" /\ h.running[i] # 0
    /\ LET t == h.running[i]
           row == IF "HistArrivalRows" \in Deviations THEN Len(h.arrived) + 1 ELSE t
       IN h' = [h EXCEPT !.running[i] = 0, !.arrived = Append(h.arrived, t),
                         !.rows[row] = store.hst[t]]
    /\ UNCHANGED <<store, orig, hist, results, work, pc, tmp, parts>>

SomeHDispatch == \E i \in 1..MaxW : i <= h.W /\ HDispatch(i)
SomeHComplete == \E i \in 1..MaxW : i <= h.W /\ HComplete(i)

HistSum ==
    /\ pc = "pool" /\ h.next > NP /\ \A i \in 1..h.W : h.running[i] = 0
    /\ tmp' = [NoTmp EXCEPT !.total = [b \in Bins |-> SumF([p \in Patches |-> h.rows[p][b]], Patches)]]
    /\ pc' = "hres"
    /\ UNCHANGED <<store, orig, hist, results, work, parts, h>>

(* resample_jackknife: idx = tile(arange(N), N); delete N positions; reshape (N, N-1); sum *)
Deleted == IF "HistDeleteFirstBlock" \in Deviations
           THEN 0..(NP - 1)
           ELSE { k * (NP + 1) : k \in 0..(NP - 1) }
Remaining == SelectSeq([t \in 1..(NP * NP) |-> t - 1], LAMBDA t : t \notin Deleted)
JackIdx(k, c) == (Remaining[(k - 1) * (NP - 1) + c] % NP) + 1    \* patch used at column c of sample k
HistResample ==
    /\ pc = "hres"
    /\ parts' = (cur :> [data |-> tmp.total,
                         samples |-> [k \in Patches |-> [b \in Bins |->
                             SumF([c \in 1..(NP - 1) |-> h.rows[JackIdx(k, c)][b]], 1..(NP - 1))]]])
                @@ parts
    /\ work' = Tail(work)
    /\ pc' = "task"
    /\ tmp' = NoTmp
    /\ UNCHANGED <<store, orig, hist, results, h>>

(* --- return ------------------------------------------------------------- *)
IntRes(p, scale, sched) ==
    [data |-> [b \in Bins |-> Q(p.data[b], scale)],
     samples |-> [k \in Patches |-> [b \in Bins |-> Q(p.samples[k][b], scale)]],
     cov |-> IF Level = "trace" THEN <<>> ELSE CovOf(p.samples, scale), sched |-> sched]
RatRes(p) == [data |-> p.data, samples |-> p.samples, cov |-> <<>>, sched |-> <<>>]
Compose(op) ==
    CASE op[1] = "counts" -> IntRes(parts[op], 1, <<>>)
      [] op[1] = "sumw"   -> IntRes(parts[op], 2, <<>>)
      [] op[1] = "norm"   -> RatRes(parts[<<"ratio", op[2], op[3]>>])
      [] op[1] = "corr"   -> RatRes(parts[<<"est", op[2], "-">>])
      [] op[1] = "nz"     -> RatRes(parts[<<"nzf", "-", "-">>])
      [] op[1] = "io"     -> RatRes(parts[op])
      [] op[1] = "hist"   -> IntRes(parts[op], 1, <<h.W, h.arrived>>)

FinishOp ==
    /\ pc = "task" /\ work = <<>>
    /\ results' = Append(results, Compose(hist[Len(hist)]))
    /\ pc' = "idle"
    /\ h' = NoPool
    /\ UNCHANGED <<store, orig, hist, work, tmp, parts>>

SomeStartOp == \E op \in OpsOf : StartOp(op)

Done == pc = "idle" /\ Len(hist) = MaxOps

Next == \/ SomeStartOp
        \/ GetArray \/ SumPatches \/ RowSum \/ ColSum \/ Diag \/ Combine
        \/ Ratio \/ Estimate \/ Redshift \/ WriteRead
        \/ HistStart \/ SomeHDispatch \/ SomeHComplete \/ HistSum \/ HistResample
        \/ FinishOp
        \/ (Done /\ UNCHANGED vars)

Spec == Init /\ [][Next]_vars /\ WF_vars(Next)

---------------------------------------------------------------------------
(* PROPERTIES *)

(* C03: every result = the statistic of the original data, sample k = the  *)
(* statistic recomputed without patch k, rows in patch-index order         *)
JackknifeIsLeaveOneOut ==
    \A n \in 1..Len(results) :
        /\ results[n].data = ExpData(hist[n])
        /\ results[n].samples = ExpSamples(hist[n])

(* sampling / writing never changes the containers *)
FrameUnchanged == store = orig

(* covariance: symmetric, non-negative diagonal *)
CovWellFormed ==
    \A n \in 1..Len(results) :
        results[n].cov # <<>> =>
            LET c == results[n].cov IN
            \A a \in Bins, b \in Bins : c[a][b] = c[b][a] /\ c[a][a][1] >= 0 /\ c[a][b][2] > 0

(* Cauchy-Schwarz = every 2x2 principal minor >= 0 (only for configs whose numbers stay below 2^31) *)
CovCauchySchwarz ==
    \A n \in 1..Len(results) :
        results[n].cov # <<>> =>
            LET c == results[n].cov IN
            \A a \in Bins, b \in Bins : c[a][b][1] * c[a][b][1] <= c[a][a][1] * c[b][b][1]

TypeOK ==
    /\ pc \in {"idle", "task", "sum", "row", "col", "diag", "combine", "pool", "hres"}
    /\ Len(hist) <= MaxOps /\ Len(results) <= Len(hist)
    /\ (pc = "idle") => (Len(results) = Len(hist))

Termination == <>Done

(* every terminal state = one behaviour (data, operations, expected results) for the replay driver *)
PrintBeh == Done => PrintT(<<"beh", orig.cnt, orig.wt, orig.hst, hist, results>>)
=============================================================================
