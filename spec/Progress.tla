------------------------------ MODULE Progress ------------------------------
(***************************************************************************)
(* utils/logging.py: Indicator - the progress wrapper that count_pairs(),  *)
(* build_trees(), catalog creation and HistData.from_catalog put around    *)
(* their RESULT iterator when progress=True.  Every patch-pair count, tree *)
(* and input chunk of such a run passes through it, so "exact and complete"*)
(* (C01) needs it to be a pass-through whatever the clock does.            *)
(*                                                                         *)
(*   __init__:  printer.start() on root             display(0, 0.0, 0.0)   *)
(*   __iter__ (root):                                                      *)
(*       last_update = 0.0; i = 0; start = timer()               Begin     *)
(*       for item in iterable:                      (may raise:  Raise)    *)
(*           i += 1; elapsed = timer() - start                   Step      *)
(*           if elapsed - last_update > min_interval:                      *)
(*               printer.display(i, i / num_items, elapsed)                *)
(*               last_update = elapsed                                     *)
(*           yield item                                                    *)
(*       printer.close(i, i / num_items, timer() - start)        Close     *)
(*   __iter__ (other ranks):  yield from iterable                StepOff   *)
(*                                                                         *)
(* Time is in units of min_interval's grain; every timer reading advances  *)
(* the clock by a free choice from Ticks, so TLC explores every pattern of *)
(* fast and slow arrivals.                                                 *)
(***************************************************************************)
EXTENDS Naturals, Sequences, TLC

CONSTANTS MaxN,        \* items 1..n, n \in 0..MaxN
          Ticks,       \* possible clock advances between two timer readings
          Intervals,   \* values of min_interval explored
          Dev          \* "none" | "SkipWhenFast" (the display throttle also skips the yield)

VARIABLES n, known, root, failat, interval,     \* scenario
          i, now, last, yielded, shown, st, ticks

vars == <<n, known, root, failat, interval, i, now, last, yielded, shown, st, ticks>>

Shown(k, e, c) == [i |-> k, e |-> e, c |-> c]

Init == /\ n \in 0..MaxN /\ known \in BOOLEAN /\ root \in BOOLEAN /\ interval \in Intervals
        /\ failat \in 0..n                      \* 0: the source never raises; k: it raises instead of item k
        /\ i = 0 /\ now = 0 /\ last = 0 /\ yielded = <<>> /\ ticks = <<>>
        /\ shown = IF root THEN <<Shown(0, 0, FALSE)>> ELSE <<>>
        /\ st = "start"

Scen == <<n, known, root, failat, interval>>

Begin == /\ st = "start" /\ st' = "loop"          \* start = timer(): elapsed is counted from here
         /\ UNCHANGED <<Scen, i, now, last, yielded, shown, ticks>>

Step == /\ st = "loop" /\ root /\ i < n /\ failat # i + 1
        /\ \E d \in Ticks :
             LET e == now + d
             IN /\ now' = e /\ ticks' = Append(ticks, d)
                /\ i' = i + 1
                /\ IF e > last + interval
                     THEN /\ shown' = Append(shown, Shown(i + 1, e, FALSE)) /\ last' = e
                     ELSE UNCHANGED <<shown, last>>
                /\ yielded' = IF Dev = "SkipWhenFast" /\ ~(e > last + interval)
                                THEN yielded ELSE Append(yielded, i + 1)
        /\ UNCHANGED <<Scen, st>>

StepOff == /\ st = "loop" /\ ~root /\ i < n /\ failat # i + 1
           /\ i' = i + 1 /\ yielded' = Append(yielded, i + 1)
           /\ UNCHANGED <<Scen, now, last, shown, st, ticks>>

Raise == /\ st = "loop" /\ failat = i + 1
         /\ st' = "raised"
         /\ UNCHANGED <<Scen, i, now, last, yielded, shown, ticks>>

Close == /\ st = "loop" /\ i = n /\ failat = 0
         /\ IF root THEN \E d \in Ticks : /\ now' = now + d /\ ticks' = Append(ticks, d)
                                          /\ shown' = Append(shown, Shown(i, now + d, TRUE))
                    ELSE UNCHANGED <<now, ticks, shown>>
         /\ st' = "closed"
         /\ UNCHANGED <<Scen, i, last, yielded>>

Finished == st \in {"closed", "raised"}

Next == Begin \/ Step \/ StepOff \/ Raise \/ Close \/ (Finished /\ UNCHANGED vars)
Spec == Init /\ [][Next]_vars /\ WF_vars(Next)

---------------------------------------------------------------------------
(* C01 (completeness under progress=True): what was taken from the source is exactly what
   was handed on, in order, at every instant *)
PassThrough == yielded = [k \in 1..i |-> k]
CompleteAtEnd == st = "closed" => Len(yielded) = n
RaisePropagates == (st = "raised") => /\ failat = i + 1 /\ Len(yielded) = i
(* the display: start line, throttled updates, final line with the total - never off root *)
SilentOffRoot == ~root => shown = <<>>
Throttled == \A a \in 1..Len(shown), b \in 1..Len(shown) :
                (a < b /\ ~shown[b].c) => shown[b].e > shown[a].e + interval
CloseCountsAll == (st = "closed" /\ root) => /\ shown[Len(shown)].c /\ shown[Len(shown)].i = n
Termination == <>Finished

PrintDone == Finished => PrintT(<<"prog", n, known, root, failat, interval, ticks, yielded, shown, st>>)
=============================================================================
