--------------------------- MODULE RandomGenTrace ---------------------------
(***************************************************************************)
(* Trace validation for RandomGen (code -> spec).                          *)
(*                                                                         *)
(* The driver performs random sequences of public operations on the REAL   *)
(* generator / RandomReader / Catalog.from_random and records, per         *)
(* operation, what the implementation did:                                 *)
(*   op, a     operation and its size / seed argument (seed: 0 = the real  *)
(*             seed 0, NoSeed = -1 = reseed() without argument); the first *)
(*             operation is the construction <<"new", seed>>, not counted  *)
(*             in nops                                                     *)
(*   out       ok | ValueError | complete | abandoned                      *)
(*   prn, resn sizes of the arrays returned by the probe call / by every   *)
(*             chunk call of the pass (observed at generator.__call__)     *)
(*   ev        the generator events seen during the operation              *)
(*             (<<"reseed", s>>, <<"call", n>>), in order                  *)
(* One line of TRACE_FILE = [sc, nops, ops].  A trace is accepted iff some *)
(* behaviour of RandomGen (same actions, unchanged) produces exactly this  *)
(* history: the state constraint Consistent prunes every state whose hist  *)
(* is not compatible with the recorded operations, so the invariants of    *)
(* RandomGen (ExactSize, ReseedAtPassStart, Reproducible, ...) are         *)
(* evaluated on precisely the states the implementation went through.      *)
(* For an accepted trace the final hist (with the tokens the spec assigns  *)
(* to every recorded output) is printed; the driver realises the tokens on *)
(* fresh generators and compares the arrays bit by bit.                    *)
(***************************************************************************)
EXTENDS RandomGen, Json, IOUtils, TLCExt

Traces == ndJsonDeserialize(IOEnv.TRACE_FILE)

VARIABLE tid
tvars == <<vars, tid>>

T == Traces[tid]

SizesOf(toks) == [j \in 1..Len(toks) |-> toks[j][5]]
IsPrefix(s, t) == Len(s) <= Len(t) /\ \A j \in 1..Len(s) : s[j] = t[j]
SameSeq(s, t)  == Len(s) = Len(t) /\ IsPrefix(s, t)

Closed(e) == e.out \notin {"open", "running"}

Matches(e, r) ==
    /\ e.op = r.op /\ e.a = r.a
    /\ IF Closed(e)
         THEN /\ e.out = r.out
              /\ SameSeq(SizesOf(e.pr), r.prn) /\ SameSeq(SizesOf(e.res), r.resn)
              /\ SameSeq(e.ev, r.ev)
         ELSE /\ IsPrefix(SizesOf(e.pr), r.prn) /\ IsPrefix(SizesOf(e.res), r.resn)
              /\ IsPrefix(e.ev, r.ev)

(* state constraint: hist is compatible with the recorded operations *)
Consistent ==
    /\ Len(hist) <= Len(T.ops)
    /\ nops <= T.nops
    /\ \A i \in 1..Len(hist) : Matches(hist[i], T.ops[i])

TInit == /\ tid \in 1..Len(Traces)
         /\ sc = Traces[tid].sc
         /\ gen = NoGen
         /\ glob = 0
         /\ rd = NoReader
         /\ urd = NoReader
         /\ pc = "new"          \* the first recorded operation is the construction ("new", seed)
         /\ hist = <<>>
         /\ nops = 0
         /\ TLCSet(tid, 0) /\ TLCSet(10000 + tid, FALSE)

TNext == Next /\ UNCHANGED tid

TSpec == TInit /\ [][TNext]_tvars

Complete == /\ Len(hist) = Len(T.ops) /\ nops = T.nops /\ Quiescent
            /\ \A i \in 1..Len(hist) : Closed(hist[i])

(* verdict registers: longest explained prefix, accepted *)
Progress ==
    /\ (Consistent => TLCSet(tid, IF Len(hist) > TLCGet(tid) THEN Len(hist) ELSE TLCGet(tid)))
    /\ ((Consistent /\ Complete) =>
            /\ TLCSet(10000 + tid, TRUE)
            /\ PrintT(<<"acceptedj", ToJson([tid |-> tid, hist |-> hist])>>))

Post == PrintT(<<"verdict", [i \in 1..Len(Traces) |-> <<TLCGet(i), TLCGet(10000 + i)>>]>>)
=============================================================================
