------------------------------- MODULE CacheFS -------------------------------
(***************************************************************************)
(* The cache directory as a file-system state machine (C07 history         *)
(* independence, C08 crash safety).  One action = one file-system syscall  *)
(* of the library, in the order the code issues them; Crash may strike     *)
(* between any two of them (user-space buffers are lost, which is why only *)
(* syscalls appear).  Three machines, selected by Workload:                *)
(*                                                                         *)
(* "trees"   catalog/trees.py BinnedTrees.build / __init__ for ONE patch:  *)
(*     reuse decision: binning file exists /\ decodes to the requested     *)
(*       binning /\ not force            (an empty or 1-byte binning file  *)
(*       decodes to "no binning")                                          *)
(*     rebuild: [unlink binning]  <- ideal / fixed; absent in the code     *)
(*              open trees.pkl (creat|trunc), write* (pickle), close,      *)
(*              open binning (creat|trunc), write 1 byte (closed side),    *)
(*              write edges, close                                         *)
(*     use(b): build(b) ; load trees.pkl ; count pairs                     *)
(*                                                                         *)
(* "catalog" catalog.py CatalogWriter / PatchWriter / finalize for a       *)
(*     catalog of NPatch patches, optionally over an old catalog:          *)
(*     [rmtree old: unlink/rmdir in directory order], mkdir root,          *)
(*     per patch mkdir, open data.bin, write+, close,                      *)
(*     patch_ids.bin: open (creat|trunc), write, close  <- code as found   *)
(*                    write temp file, rename           <- ideal / fixed   *)
(*     open(catalog): patch_ids.bin missing -> error; else load the listed *)
(*     patches                                                             *)
(*                                                                         *)
(* "results" correlation/corrdata.py CorrData.to_files: .dat, .smp, .cov   *)
(*     each open (trunc), write, close, one after the other, possibly over *)
(*     an older generation; from_files reads .dat and .smp                 *)
(*                                                                         *)
(* Binnings: "N" none (unbinned trees), "A", "A2" (edges of A, other       *)
(* closed side), "B" (other edges, same number of bins), "C" (other number *)
(* of bins).                                                               *)
(*                                                                         *)
(* Deviations (code as found):                                             *)
(*   "StaleMarkerDuringRebuild"  the old binning file stays valid while    *)
(*        trees.pkl is rewritten                                           *)
(*   "ClosedSideIgnored"         cached trees are reused when only the     *)
(*        edges match (a seeded defect, not in the code as found)          *)
(*   "IdsWrittenInPlace"         patch_ids.bin is created empty, then      *)
(*        written: an empty index opens as an empty catalog                *)
(*   "ResultTripleNotAtomic"     the three result files are replaced one   *)
(*        by one: mixed generations are readable                           *)
(***************************************************************************)
EXTENDS Naturals, Sequences, FiniteSets, TLC

CONSTANTS Workload, Binnings, MaxBuilds, NPatch, Deviations

Dev(d) == d \in Deviations

VARIABLES
    (* trees machine *)
    marker,    \* "absent" | "empty" | a binning (file content decodes to it)
    trees,     \* "absent" | "empty" | "partial" | [built |-> binning]
    step,      \* 0 idle, else position in the rebuild sequence
    req,       \* binning of the rebuild in progress
    builds,    \* number of builds started (history bound)
    crashed,   \* a crash has happened
    used,      \* outcome of the last use: "none" | "error" | [uses |-> b, wanted |-> b]
    (* catalog machine *)
    root,      \* "absent" | "dir"
    pdata,     \* patch -> "absent" | "dir" | "empty" | "partial" | "full" ; generation in pgen
    pgen,      \* patch -> 0 (none) | 1 (old catalog) | 2 (new catalog)
    ids,       \* "absent" | "empty" | 1 | 2    (generation listed)
    cstep,     \* position in the create sequence
    opened,    \* outcome of open: "none" | "error" | [gen |-> g, complete |-> BOOLEAN]
    (* results machine *)
    rfile,     \* [dat, smp, cov] -> "absent" | "empty" | 1 | 2
    rstep,
    readback   \* "none" | "error" | [dat |-> g, smp |-> g]

vars == <<marker, trees, step, req, builds, crashed, used, root, pdata, pgen, ids, cstep, opened, rfile, rstep, readback>>
tvars == <<marker, trees, step, req, builds, used>>
cvars == <<root, pdata, pgen, ids, cstep, opened>>
rvars == <<rfile, rstep, readback>>

Patches == 1..NPatch
Decoded == IF marker \in {"absent"} THEN "none" ELSE IF marker = "empty" THEN "N" ELSE marker
T(k, b) == [k |-> k, built |-> b]
U(k, u, w) == [k |-> k, uses |-> u, wanted |-> w]
O(k, g, c) == [k |-> k, gen |-> g, complete |-> c]
RB(k, d, s) == [k |-> k, dat |-> d, smp |-> s]
GenName(n) == IF n = 1 THEN "g1" ELSE IF n = 2 THEN "g2" ELSE "absent"

Init == /\ marker = "absent" /\ trees = T("absent", "N") /\ step = 0 /\ req = "N" /\ builds = 0
        /\ crashed = FALSE /\ used = U("none", "N", "N")
        /\ \/ /\ root = "absent" /\ pdata = [p \in Patches |-> "absent"] /\ pgen = [p \in Patches |-> 0] /\ ids = "absent"
           \/ /\ Workload = "catalog"                    \* an old, complete catalog exists
              /\ root = "dir" /\ pdata = [p \in Patches |-> "full"] /\ pgen = [p \in Patches |-> 1] /\ ids = "g1"
        /\ cstep = 0 /\ opened = O("none", "absent", FALSE)
        /\ \/ rfile = [f \in {"dat", "smp", "cov"} |-> "absent"]
           \/ Workload = "results" /\ rfile = [f \in {"dat", "smp", "cov"} |-> "g1"]
        /\ rstep = 0 /\ readback = RB("none", "absent", "absent")

---------------------------------------------------------------------------
(* trees machine *)
(* binning_equal: edges AND closed side must match ("ClosedSideIgnored": edges only) *)
SameBinning(a, b) == a = b \/ (Dev("ClosedSideIgnored") /\ {a, b} = {"A", "A2"})
Reuse(b, force) == ~force /\ marker # "absent" /\ SameBinning(Decoded, b)

StartBuild(b, force) ==
    /\ Workload = "trees" /\ step = 0 /\ builds < MaxBuilds
    /\ builds' = builds + 1
    /\ IF Reuse(b, force)
         THEN UNCHANGED <<marker, trees, step, req>>
         ELSE /\ req' = b
              /\ step' = IF Dev("StaleMarkerDuringRebuild") \/ marker = "absent" THEN 2 ELSE 1
              /\ UNCHANGED <<marker, trees>>
    /\ UNCHANGED <<crashed, used>> /\ UNCHANGED cvars /\ UNCHANGED rvars

UnlinkMarker == /\ step = 1 /\ marker' = "absent" /\ step' = 2 /\ UNCHANGED <<trees, req, builds, crashed, used>> /\ UNCHANGED cvars /\ UNCHANGED rvars
OpenTrees == /\ step = 2 /\ trees' = T("empty", "N") /\ step' = 3 /\ UNCHANGED <<marker, req, builds, crashed, used>> /\ UNCHANGED cvars /\ UNCHANGED rvars
WriteTreesPart == /\ step = 3 /\ trees' = T("partial", "N") /\ step' = 4 /\ UNCHANGED <<marker, req, builds, crashed, used>> /\ UNCHANGED cvars /\ UNCHANGED rvars
WriteTreesRest == /\ step \in {3, 4} /\ trees' = T("full", req) /\ step' = 5 /\ UNCHANGED <<marker, req, builds, crashed, used>> /\ UNCHANGED cvars /\ UNCHANGED rvars
OpenMarker == /\ step = 5 /\ marker' = "empty" /\ step' = 6 /\ UNCHANGED <<trees, req, builds, crashed, used>> /\ UNCHANGED cvars /\ UNCHANGED rvars
WriteMarkerByte == /\ step = 6 /\ marker' = "N" /\ step' = 7 /\ UNCHANGED <<trees, req, builds, crashed, used>> /\ UNCHANGED cvars /\ UNCHANGED rvars
WriteMarkerEdges == /\ step = 7 /\ marker' = req /\ step' = 0 /\ UNCHANGED <<trees, req, builds, crashed, used>> /\ UNCHANGED cvars /\ UNCHANGED rvars

(* what loading and using the cached trees for a measurement with binning b yields *)
UseOutcome(b) ==
    IF trees.k # "full" THEN U("error", "N", b)                     \* FileNotFoundError / unpickling error
    ELSE IF trees.built = b THEN U("ok", b, b)
    ELSE IF trees.built = "N" \/ b = "N" THEN U("error", "N", b)    \* single tree vs tuple of trees: TypeError
    ELSE U("ok", trees.built, b)                                     \* binned trees of another binning: no error

(* a measurement: build(b, force=FALSE) to completion, then use; histories may go on afterwards *)
Use(b) ==
    /\ Workload = "trees" /\ step = 0 /\ builds < MaxBuilds
    /\ builds' = builds + 1
    /\ IF Reuse(b, FALSE)
         THEN /\ used' = UseOutcome(b) /\ UNCHANGED <<marker, trees>>
         ELSE /\ marker' = b /\ trees' = T("full", b) /\ used' = U("ok", b, b)
    /\ UNCHANGED <<step, req, crashed>> /\ UNCHANGED cvars /\ UNCHANGED rvars

---------------------------------------------------------------------------
(* catalog machine: create generation 2 (over generation 1 if present) *)
(* cstep: 0 idle; 1 rmtree in progress; 2 mkdir root; 3 writing patches; 4 ids open; 5 ids write; 6 done *)
StartCreate ==
    /\ Workload = "catalog" /\ cstep = 0 /\ opened.k = "none" /\ ~crashed
    /\ cstep' = IF root = "dir" THEN 1 ELSE 2
    /\ UNCHANGED <<root, pdata, pgen, ids, opened, crashed>> /\ UNCHANGED tvars /\ UNCHANGED rvars

(* rmtree removes directory entries in no particular order *)
RmIds == /\ cstep = 1 /\ ids # "absent" /\ ids' = "absent" /\ UNCHANGED <<root, pdata, pgen, cstep, opened, crashed>> /\ UNCHANGED tvars /\ UNCHANGED rvars
RmPatchData(p) == /\ cstep = 1 /\ pdata[p] \in {"full", "partial", "empty"} /\ pdata' = [pdata EXCEPT ![p] = "dir"]
                  /\ UNCHANGED <<root, pgen, ids, cstep, opened, crashed>> /\ UNCHANGED tvars /\ UNCHANGED rvars
RmPatchDir(p) == /\ cstep = 1 /\ pdata[p] = "dir" /\ pdata' = [pdata EXCEPT ![p] = "absent"] /\ pgen' = [pgen EXCEPT ![p] = 0]
                 /\ UNCHANGED <<root, ids, cstep, opened, crashed>> /\ UNCHANGED tvars /\ UNCHANGED rvars
RmRoot == /\ cstep = 1 /\ ids = "absent" /\ \A p \in Patches : pdata[p] = "absent"
          /\ root' = "absent" /\ cstep' = 2 /\ UNCHANGED <<pdata, pgen, ids, opened, crashed>> /\ UNCHANGED tvars /\ UNCHANGED rvars
MkRoot == /\ cstep = 2 /\ root' = "dir" /\ cstep' = 3 /\ UNCHANGED <<pdata, pgen, ids, opened, crashed>> /\ UNCHANGED tvars /\ UNCHANGED rvars
(* patch writers are created on demand and appended to chunk by chunk, in any order *)
MkPatch(p) == /\ cstep = 3 /\ pdata[p] = "absent" /\ pdata' = [pdata EXCEPT ![p] = "dir"] /\ pgen' = [pgen EXCEPT ![p] = 2]
              /\ UNCHANGED <<root, ids, cstep, opened, crashed>> /\ UNCHANGED tvars /\ UNCHANGED rvars
OpenData(p) == /\ cstep = 3 /\ pdata[p] = "dir" /\ pdata' = [pdata EXCEPT ![p] = "empty"]
               /\ UNCHANGED <<root, pgen, ids, cstep, opened, crashed>> /\ UNCHANGED tvars /\ UNCHANGED rvars
AppendData(p) == /\ cstep = 3 /\ pdata[p] \in {"empty", "partial"} /\ \E nxt \in {"partial", "full"} : pdata' = [pdata EXCEPT ![p] = nxt]
                 /\ UNCHANGED <<root, pgen, ids, cstep, opened, crashed>> /\ UNCHANGED tvars /\ UNCHANGED rvars
OpenIds == /\ cstep = 3 /\ \A p \in Patches : pdata[p] = "full"
           /\ IF Dev("IdsWrittenInPlace") THEN ids' = "empty" /\ cstep' = 5
              ELSE UNCHANGED ids /\ cstep' = 4                         \* temp file: not visible yet
           /\ UNCHANGED <<root, pdata, pgen, opened, crashed>> /\ UNCHANGED tvars /\ UNCHANGED rvars
RenameIds == /\ cstep = 4 /\ ids' = "g2" /\ cstep' = 6 /\ UNCHANGED <<root, pdata, pgen, opened, crashed>> /\ UNCHANGED tvars /\ UNCHANGED rvars
WriteIds == /\ cstep = 5 /\ ids' = "g2" /\ cstep' = 6 /\ UNCHANGED <<root, pdata, pgen, opened, crashed>> /\ UNCHANGED tvars /\ UNCHANGED rvars

OpenCatalog ==
    /\ Workload = "catalog" /\ cstep \in {0, 6} /\ opened.k = "none"
    /\ opened' = IF root = "absent" \/ ids = "absent" THEN O("error", "absent", FALSE)
                 ELSE IF ids = "empty" THEN O("ok", "empty", FALSE)                       \* opens with zero patches
                 ELSE IF \E p \in Patches : pdata[p] \in {"absent", "dir"} THEN O("error", ids, FALSE)  \* listed patch missing
                 ELSE O("ok", ids, \A p \in Patches : pdata[p] = "full" /\ GenName(pgen[p]) = ids)
    /\ UNCHANGED <<root, pdata, pgen, ids, cstep, crashed>> /\ UNCHANGED tvars /\ UNCHANGED rvars

---------------------------------------------------------------------------
(* results machine: write generation 2 *)
RFiles == <<"dat", "smp", "cov">>
StartWrite == /\ Workload = "results" /\ rstep = 0 /\ readback.k = "none" /\ ~crashed /\ rstep' = 1
              /\ UNCHANGED <<rfile, readback, crashed>> /\ UNCHANGED tvars /\ UNCHANGED cvars
(* "ResultTripleNotAtomic" (code as found): the three files are replaced in place one after
   the other - rstep 2k-1: open (trunc) file k; 2k: write file k *)
OpenR == /\ Dev("ResultTripleNotAtomic")
         /\ rstep \in {1, 3, 5} /\ rfile' = [rfile EXCEPT ![RFiles[(rstep + 1) \div 2]] = "empty"] /\ rstep' = rstep + 1
         /\ UNCHANGED <<readback, crashed>> /\ UNCHANGED tvars /\ UNCHANGED cvars
WriteR == /\ Dev("ResultTripleNotAtomic")
          /\ rstep \in {2, 4, 6} /\ rfile' = [rfile EXCEPT ![RFiles[rstep \div 2]] = "g2"] /\ rstep' = (rstep + 1) % 7
          /\ UNCHANGED <<readback, crashed>> /\ UNCHANGED tvars /\ UNCHANGED cvars
(* the design (and the repaired to_files): the .dat file completes the set.
     1 unlink .dat | 2 open .smp | 3 write .smp | 4 open .cov | 5 write .cov |
     6 write .dat.tmp (invisible) | 7 rename .dat.tmp -> .dat *)
CommitR ==
    /\ ~Dev("ResultTripleNotAtomic") /\ rstep \in 1..7
    /\ rfile' = CASE rstep = 1 -> [rfile EXCEPT !["dat"] = "absent"]
                  [] rstep = 2 -> [rfile EXCEPT !["smp"] = "empty"]
                  [] rstep = 3 -> [rfile EXCEPT !["smp"] = "g2"]
                  [] rstep = 4 -> [rfile EXCEPT !["cov"] = "empty"]
                  [] rstep = 5 -> [rfile EXCEPT !["cov"] = "g2"]
                  [] rstep = 6 -> rfile
                  [] rstep = 7 -> [rfile EXCEPT !["dat"] = "g2"]
    /\ rstep' = (rstep + 1) % 8
    /\ UNCHANGED <<readback, crashed>> /\ UNCHANGED tvars /\ UNCHANGED cvars
(* from_files reads .dat and .smp; a missing or empty file is an error *)
ReadResults ==
    /\ Workload = "results" /\ rstep = 0 /\ readback.k = "none"
    /\ readback' = IF rfile["dat"] \in {"absent", "empty"} \/ rfile["smp"] \in {"absent", "empty"} THEN RB("error", "absent", "absent")
                   ELSE RB("ok", rfile["dat"], rfile["smp"])
    /\ UNCHANGED <<rfile, rstep, crashed>> /\ UNCHANGED tvars /\ UNCHANGED cvars

---------------------------------------------------------------------------
(* the process dies: whatever was in progress stops for good *)
Crash ==
    /\ ~crashed /\ (step # 0 \/ cstep \in 1..5 \/ rstep # 0)
    /\ crashed' = TRUE /\ step' = 0 /\ cstep' = 0 /\ rstep' = 0
    /\ UNCHANGED <<marker, trees, req, builds, used, root, pdata, pgen, ids, opened, rfile, readback>>

SomeStartBuild == \E b \in Binnings, f \in BOOLEAN : StartBuild(b, f)
SomeUse == \E b \in Binnings : Use(b)
TreeStep == UnlinkMarker \/ OpenTrees \/ WriteTreesPart \/ WriteTreesRest \/ OpenMarker \/ WriteMarkerByte \/ WriteMarkerEdges
CatStep == RmIds \/ (\E p \in Patches : RmPatchData(p) \/ RmPatchDir(p) \/ MkPatch(p) \/ OpenData(p) \/ AppendData(p))
           \/ RmRoot \/ MkRoot \/ OpenIds \/ RenameIds \/ WriteIds
ResStep == OpenR \/ WriteR \/ CommitR

Next == SomeStartBuild \/ TreeStep \/ SomeUse \/ StartCreate \/ CatStep \/ OpenCatalog
        \/ StartWrite \/ ResStep \/ ReadResults \/ Crash

Spec == Init /\ [][Next]_vars

---------------------------------------------------------------------------
(* C07 / C08 for the tree cache: a measurement never silently uses trees of
   another binning - with or without an earlier crash *)
NeverWrongTrees == used.k \in {"none", "error"} \/ used.uses = used.wanted
(* C07 proper: without a crash a measurement always succeeds with the right trees *)
HistoryIndependent == (~crashed /\ used.k # "none") => (used.k = "ok" /\ used.uses = used.wanted)
(* C08 for catalogs: what opens is a complete catalog (old or new), else an error *)
CatalogAllOrNothing == opened.k \in {"none", "error"} \/ (opened.complete /\ opened.gen \in {"g1", "g2"})
NoCrashCatalogOK == (~crashed /\ cstep = 6 /\ opened.k # "none") => (opened.k = "ok" /\ opened.gen = "g2" /\ opened.complete)
(* C08 for result files: what reads back is one generation, else an error *)
ResultsOneGeneration == readback.k \in {"none", "error"} \/ readback.dat = readback.smp

NoCrash == ~crashed        \* state constraint for crash-free histories (C07)

(* crashed states are printed for the replay driver *)
PrintCrash == (crashed /\ used.k = "none" /\ opened.k = "none" /\ readback.k = "none") =>
                 PrintT(<<"crashed", Workload, marker, trees, ids, pdata, pgen, rfile>>)
=============================================================================
