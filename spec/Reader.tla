------------------------------- MODULE Reader -------------------------------
(***************************************************************************)
(* catalog/readers.py: how a catalog source is consumed while a catalog is *)
(* created (C18).                                                          *)
(*                                                                         *)
(*   DataChunkReader.__iter__  : _reset_iter_state()      -> StartPass     *)
(*   DataChunkReader.__next__  : stop when _num_samples >= num_records,    *)
(*                               _num_samples += chunksize,                *)
(*                               _get_next_chunk()        -> ReadSlice     *)
(*   DataFrame/Fits/HDF reader : source[start:end], end = _num_samples,    *)
(*                               start = end - chunksize                   *)
(*   RandomReader              : generator(min(chunksize, rest))           *)
(*   ParquetReader             : _load_groups()   -> LoadGroup (one        *)
(*                               read_row_group(i) per step, until the     *)
(*                               cache holds >= chunksize rows or EOF)     *)
(*                               _extract_chunk() -> Extract (first        *)
(*                               chunksize rows of the cache, remainder    *)
(*                               pushed back)                              *)
(*   DataReader.get_probe      : one complete extra pass (patch_num mode)  *)
(*   write_patches*            : one complete pass                         *)
(*                                                                         *)
(* A request is a half-open row range <<a, b>> of the source.  Row r       *)
(* (1-based) is covered by <<a, b>> iff a < r <= b.                        *)
(*                                                                         *)
(* Deviation "RowGroupUnit" (Parquet, code as found): the unit requested   *)
(* from the file is a whole row group, whatever its size; the ideal design *)
(* never asks for more than chunksize rows at once.                        *)
(***************************************************************************)
EXTENDS Naturals, Sequences, FiniteSets, TLC

CONSTANTS MinL,       \* source lengths MinL..MaxL are explored (MinL = 0 except for the long-source runs)
          MaxL,
          MaxCS,      \* chunk sizes 1..MaxCS
          Kinds,      \* subset of {"slice", "random", "parquet"}
          MaxGroups,  \* parquet: up to MaxGroups row groups (all compositions of L)
          Deviations

(* the scenario p = [L, CS, Kind, Groups, Passes] is chosen in Init and then fixed:
     L      number of records of the source
     CS     configured chunksize
     Kind   "slice" (data frame, FITS, HDF5), "random", "parquet"
     Groups parquet row-group sizes (sum = L)
     Passes 1 (patch_centers / patch_name) or 2 (patch_num: probe pass first) *)
VARIABLES p, pass, pos, reqs, chunks, gidx, cache, active

vars == <<p, pass, pos, reqs, chunks, gidx, cache, active>>

L == p.L
CS == p.CS
Kind == p.Kind
Groups == p.Groups
Passes == p.Passes

Min(a, b) == IF a < b THEN a ELSE b

RECURSIVE SumTo(_, _)
SumTo(s, n) == IF n = 0 THEN 0 ELSE s[n] + SumTo(s, n - 1)
GroupStart(i) == SumTo(Groups, i - 1)          \* rows before group i
GroupStop(i) == SumTo(Groups, i)
NG == Len(Groups)

RowGroupUnit == "RowGroupUnit" \in Deviations

RECURSIVE SeqSum(_)
SeqSum(q) == IF q = <<>> THEN 0 ELSE q[1] + SeqSum(Tail(q))
Compositions(n) == { g \in UNION { [1..m -> 1..MaxL] : m \in 1..MaxGroups } : SeqSum(g) = n }

Init == /\ \E l \in MinL..MaxL, c \in 1..MaxCS, k \in Kinds, n \in 1..2 :
             \E g \in (IF k = "parquet" /\ l > 0 THEN Compositions(l) ELSE {<<>>}) :
                p = [L |-> l, CS |-> c, Kind |-> k, Groups |-> g, Passes |-> n]
        /\ pass = 0 /\ pos = 0 /\ reqs = <<>> /\ chunks = <<>>
        /\ gidx = 1 /\ cache = <<>> /\ active = FALSE

(* __iter__: reset the iteration state *)
StartPass ==
    /\ ~active /\ pass < Passes
    /\ pass' = pass + 1 /\ pos' = 0 /\ reqs' = <<>> /\ chunks' = <<>>
    /\ gidx' = 1 /\ cache' = <<>> /\ active' = TRUE
    /\ UNCHANGED p

(* frame / FITS / HDF5: one slice request per chunk; random: one generator call *)
ReadSlice ==
    /\ active /\ Kind \in {"slice", "random"} /\ pos < L
    /\ LET a == pos
           b == IF Kind = "random" THEN Min(pos + CS, L) ELSE pos + CS   \* a slice may overshoot the end
       IN /\ reqs' = Append(reqs, <<a, b>>)
          /\ chunks' = Append(chunks, <<a, Min(b, L)>>)
    /\ pos' = pos + CS
    /\ UNCHANGED <<p, pass, gidx, cache, active>>

CacheRows == IF cache = <<>> THEN 0 ELSE SumTo([i \in 1..Len(cache) |-> cache[i][2] - cache[i][1]], Len(cache))

(* parquet: _load_groups reads row groups while the cache is short of a chunk *)
LoadGroup ==
    /\ active /\ Kind = "parquet" /\ pos < L
    /\ CacheRows < CS /\ gidx <= NG
    /\ IF RowGroupUnit
         THEN /\ reqs' = Append(reqs, <<GroupStart(gidx), GroupStop(gidx)>>)
              /\ cache' = Append(cache, <<GroupStart(gidx), GroupStop(gidx)>>)
              /\ gidx' = gidx + 1
         ELSE \* ideal: at most CS rows per request (e.g. iter_batches(batch_size=CS))
              LET a == IF cache = <<>> THEN (IF chunks = <<>> THEN 0 ELSE chunks[Len(chunks)][2])
                       ELSE cache[Len(cache)][2]
                  b == Min(a + CS, L)
              IN /\ reqs' = Append(reqs, <<a, b>>)
                 /\ cache' = Append(cache, <<a, b>>)
                 /\ gidx' = IF b = L THEN NG + 1 ELSE gidx
    /\ UNCHANGED <<p, pass, pos, chunks, active>>

(* parquet: _extract_chunk takes the first CS cached rows *)
Extract ==
    /\ active /\ Kind = "parquet" /\ pos < L
    /\ (CacheRows >= CS \/ gidx > NG)
    /\ LET a == IF cache = <<>> THEN L ELSE cache[1][1]
           have == CacheRows
           n == Min(CS, have)
           b == a + n
           rest == IF have > n THEN << <<b, cache[Len(cache)][2]>> >> ELSE <<>>
       IN /\ chunks' = Append(chunks, <<a, b>>)
          /\ cache' = rest
    /\ pos' = pos + CS
    /\ UNCHANGED <<p, pass, reqs, gidx, active>>

EndPass ==
    /\ active /\ pos >= L
    /\ active' = FALSE
    /\ UNCHANGED <<p, pass, pos, reqs, chunks, gidx, cache>>

Done == ~active /\ pass = Passes

Next == StartPass \/ ReadSlice \/ LoadGroup \/ Extract \/ EndPass \/ (Done /\ UNCHANGED vars)

Spec == Init /\ [][Next]_vars /\ WF_vars(Next)

---------------------------------------------------------------------------
Covers(req, r) == req[1] < r /\ r <= req[2]
TimesRequested(r) == Cardinality({ i \in 1..Len(reqs) : Covers(reqs[i], r) })
TimesYielded(r) == Cardinality({ i \in 1..Len(chunks) : Covers(chunks[i], r) })

(* C18: requests are consecutive, non-overlapping ... *)
Consecutive ==
    /\ (Len(reqs) > 0 => reqs[1][1] = 0)
    /\ \A i \in 1..(Len(reqs) - 1) : reqs[i + 1][1] = Min(reqs[i][2], L)
(* ... of at most the configured chunk size ... *)
Bounded == \A i \in 1..Len(reqs) : reqs[i][2] - reqs[i][1] <= CS
(* ... every record is requested (and delivered) exactly once per pass ... *)
OncePerPass ==
    (pass > 0 /\ ~active) => \A r \in 1..L : TimesRequested(r) = 1 /\ TimesYielded(r) = 1
NeverTwice == \A r \in 1..L : TimesRequested(r) <= 1 /\ TimesYielded(r) <= 1
(* ... no request asks for the whole input when it is larger than a chunk *)
NeverWholeInput == (L > CS) => \A i \in 1..Len(reqs) : ~(reqs[i][1] = 0 /\ reqs[i][2] >= L)
(* chunks handed to the pipeline: full chunks, a shorter last one, none empty *)
ChunkShapes ==
    \A i \in 1..Len(chunks) :
        /\ chunks[i][2] > chunks[i][1]
        /\ chunks[i][2] - chunks[i][1] <= CS
        /\ (i < Len(chunks) => chunks[i][2] - chunks[i][1] = CS)
PassCount == pass <= Passes
(* terminal states are printed for the replay driver: scenario + requests of the last pass *)
PrintDone == Done => PrintT(<<"done", p, reqs, chunks>>)
Termination == <>Done
=============================================================================
