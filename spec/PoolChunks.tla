----------------------------- MODULE PoolChunks -----------------------------
(***************************************************************************)
(* multiprocessing.Pool.imap_unordered(func, tasks, chunksize = CS) as the *)
(* library would see it if a chunk size were passed (utils/parallel.py     *)
(* passes none today, i.e. CS = 1 = spec/PoolMap.tla):                     *)
(*                                                                         *)
(*   the task list is cut into chunks of CS consecutive tasks  Dispatch    *)
(*   a worker evaluates  tuple(map(func, chunk))               Eval        *)
(*   and only THEN pickles the whole tuple and sends it        Complete    *)
(*   the parent yields the results of a chunk one by one, chunks in        *)
(*   completion order                                                      *)
(*                                                                         *)
(* A result is modelled as the value the parent finally sees.  func either *)
(* returns a fresh object (value fixed at Eval) or - deviation             *)
(* "SharedBuffers" - a reference to a buffer that lives in the worker      *)
(* process and is overwritten by the next call in the same process; a      *)
(* reference is resolved when the chunk is pickled.  With CS = 1 every     *)
(* result is pickled before the next call, so the deviation is invisible;  *)
(* with CS > 1 all results of a chunk show the chunk's last values: two    *)
(* changes that are each harmless alone (seed C05-M).                      *)
(***************************************************************************)
EXTENDS Naturals, Sequences, FiniteSets, TLC

CONSTANTS MaxW, MaxNT, MaxCS,
          Deviations        \* subset of {"SharedBuffers"}

VARIABLES W, NT, CS, next, running, pos, live, buffer, out

vars == <<W, NT, CS, next, running, pos, live, buffer, out>>

Val(t) == t                                   \* the value func computes for task t
NChunks == (NT + CS - 1) \div CS
ChunkOf(c) == [k \in 1..(IF c * CS <= NT THEN CS ELSE NT - (c - 1) * CS) |-> (c - 1) * CS + k]
Ref == 0                                      \* "a reference to the worker's buffer"

Init == \E w \in 1..MaxW, n \in 0..MaxNT, c \in 1..MaxCS :
          /\ W = w /\ NT = n /\ CS = c
          /\ next = 1
          /\ running = [i \in 1..w |-> 0]     \* chunk a worker holds (0: idle)
          /\ pos = [i \in 1..w |-> 0]         \* tasks of that chunk evaluated so far
          /\ live = [i \in 1..w |-> <<>>]     \* result objects of the chunk, not yet pickled
          /\ buffer = [i \in 1..w |-> 0]      \* content of the worker's module-level buffer
          /\ out = <<>>                       \* what the parent has received: [t, v]

Dispatch(i) ==
    /\ running[i] = 0 /\ next <= NChunks
    /\ running' = [running EXCEPT ![i] = next]
    /\ pos' = [pos EXCEPT ![i] = 0] /\ live' = [live EXCEPT ![i] = <<>>]
    /\ next' = next + 1
    /\ UNCHANGED <<W, NT, CS, buffer, out>>

Eval(i) ==
    /\ running[i] # 0 /\ pos[i] < Len(ChunkOf(running[i]))
    /\ LET t == ChunkOf(running[i])[pos[i] + 1] IN
         IF "SharedBuffers" \in Deviations
           THEN /\ buffer' = [buffer EXCEPT ![i] = Val(t)]
                /\ live' = [live EXCEPT ![i] = Append(@, [t |-> t, v |-> Ref])]
           ELSE /\ live' = [live EXCEPT ![i] = Append(@, [t |-> t, v |-> Val(t)])]
                /\ UNCHANGED buffer
    /\ pos' = [pos EXCEPT ![i] = @ + 1]
    /\ UNCHANGED <<W, NT, CS, next, running, out>>

Pickled(i) == [k \in 1..Len(live[i]) |->
                 [t |-> live[i][k].t, v |-> IF live[i][k].v = Ref THEN buffer[i] ELSE live[i][k].v]]

Complete(i) ==
    /\ running[i] # 0 /\ pos[i] = Len(ChunkOf(running[i]))
    /\ out' = out \o Pickled(i)
    /\ running' = [running EXCEPT ![i] = 0]
    /\ live' = [live EXCEPT ![i] = <<>>]
    /\ UNCHANGED <<W, NT, CS, next, pos, buffer>>

SomeDispatch == \E i \in 1..W : Dispatch(i)
SomeEval == \E i \in 1..W : Eval(i)
SomeComplete == \E i \in 1..W : Complete(i)
Next == SomeDispatch \/ SomeEval \/ SomeComplete
Spec == Init /\ [][Next]_vars /\ WF_vars(Next)

Done == next > NChunks /\ \A i \in 1..W : running[i] = 0

---------------------------------------------------------------------------
(* C05: whatever the chunking and the completion order, the parent gets every task's OWN result once *)
OwnValue == \A k \in 1..Len(out) : out[k].v = Val(out[k].t)
ExactlyOnce == Done => /\ Len(out) = NT
                       /\ \A t \in 1..NT : \E k \in 1..NT : out[k].t = t
(* results of a chunk arrive together and in task order *)
ChunkContiguous == \A k \in 1..Len(out) : (out[k].t - 1) % CS # 0 => (k > 1 /\ out[k - 1].t = out[k].t - 1)
(* the k-th CHUNK to arrive is one of the first W+k-1 chunks (PoolMap.FeasibleOrder on chunks) *)
FeasibleChunkOrder == \A k \in 1..Len(out) : (out[k].t - 1) % CS = 0 =>
                         ((out[k].t - 1) \div CS) + 1 <= W + Cardinality({ j \in 1..k : (out[j].t - 1) % CS = 0 }) - 1
Termination == <>Done
PrintDone == Done => PrintT(<<"chunks", W, NT, CS, [k \in 1..Len(out) |-> out[k].t], [k \in 1..Len(out) |-> out[k].v]>>)
=============================================================================
