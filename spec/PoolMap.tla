------------------------------ MODULE PoolMap ------------------------------
(***************************************************************************)
(* utils/parallel.py: _multiprocessing_iter_unordered and its consumers.   *)
(*                                                                         *)
(*   with multiprocessing.Pool(W) as pool:                                 *)
(*       yield from pool.imap_unordered(job, iterable)      (W > 1)        *)
(*   yield from map(job, iterable)                          (W = 1)        *)
(*                                                                         *)
(* The pool hands task k (in iteration order, chunksize 1) to the next     *)
(* idle worker; results are yielded in *completion* order.  Hence with W   *)
(* workers the k-th result can only be one of the first W+k-1 tasks: TLC   *)
(* enumerates exactly the feasible completion orders, not all              *)
(* permutations.                                                           *)
(*                                                                         *)
(* Consumers (what the caller does with the stream of results):            *)
(*   "dict"  load_patches: {id parsed from result: result}                 *)
(*   "cells" PatchLinkage.count_pairs: counts[:, id1, id2] = result,       *)
(*           sum_weights1[:, id1] = ..., sum_weights2[:, id2] = ...        *)
(*           (ids carried by the result; several tasks write the same      *)
(*           sum_weights cell, always with the same value)                 *)
(*   "none"  Catalog.build_trees: deque(iterator, maxlen=0)                *)
(*   "rows"  HistData.from_catalog: counts[row] = result                   *)
(* The row used by "rows" is the ARRIVAL position under the deviation      *)
(* "ArrivalOrderRows" (the code before the fix) and the index carried by   *)
(* the result otherwise.                                                   *)
(***************************************************************************)
EXTENDS Naturals, Sequences, FiniteSets, TLC

CONSTANTS MaxW,        \* worker counts 1..MaxW are explored
          MaxNT,       \* task counts 0..MaxNT are explored
          NP,          \* patches for the "cells" consumer: task t <-> pair
          Deviations   \* subset of {"ArrivalOrderRows"}

VARIABLES W, NT, next, running, out

vars == <<W, NT, next, running, out>>

Init == \E w \in 1..MaxW, n \in 0..MaxNT :
          /\ W = w /\ NT = n
          /\ next = 1
          /\ running = [i \in 1..w |-> 0]
          /\ out = <<>>

(* an idle worker takes the head of the task queue *)
Dispatch(i) ==
    /\ running[i] = 0 /\ next <= NT
    /\ running' = [running EXCEPT ![i] = next]
    /\ next' = next + 1
    /\ UNCHANGED <<W, NT, out>>

(* a busy worker finishes; its result is the next one the consumer sees *)
Complete(i) ==
    /\ running[i] # 0
    /\ out' = Append(out, running[i])
    /\ running' = [running EXCEPT ![i] = 0]
    /\ UNCHANGED <<W, NT, next>>

SomeDispatch == \E i \in 1..W : Dispatch(i)
SomeComplete == \E i \in 1..W : Complete(i)

Next == SomeDispatch \/ SomeComplete

Spec == Init /\ [][Next]_vars /\ WF_vars(Next)

Done == next > NT /\ \A i \in 1..W : running[i] = 0

---------------------------------------------------------------------------
(* Consumers as folds over the arrival sequence.  A store is a function    *)
(* from cells to values, last writer wins.                                 *)

Val(t) == t                       \* result of task t: any injective value

(* task t of the "cells" consumer is patch pair (Id1(t), Id2(t)) *)
Id1(t) == ((t - 1) \div NP) + 1
Id2(t) == ((t - 1) % NP) + 1

Writes(c, t, k) ==
    CASE c = "dict"  -> { <<<<"patch", t>>, Val(t)>> }
      [] c = "cells" -> { <<<<"count", Id1(t), Id2(t)>>, Val(t)>>,
                          <<<<"sw1", Id1(t)>>, Id1(t)>>,
                          <<<<"sw2", Id2(t)>>, Id2(t)>> }
      [] c = "none"  -> {}
      [] c = "rows"  -> IF "ArrivalOrderRows" \in Deviations
                          THEN { <<<<"row", k>>, Val(t)>> }
                          ELSE { <<<<"row", t>>, Val(t)>> }

RECURSIVE Fold(_, _, _, _)
Fold(c, seq, k, store) ==
    IF k > Len(seq) THEN store
    ELSE LET ws == Writes(c, seq[k], k)
             cells == { w[1] : w \in ws }
             new == [x \in (DOMAIN store) \cup cells |->
                        IF x \in cells THEN (CHOOSE w \in ws : w[1] = x)[2]
                        ELSE store[x]]
         IN Fold(c, seq, k + 1, new)

Result(c, seq) == Fold(c, seq, 1, <<>>)

InOrder == [k \in 1..NT |-> k]

Consumers == {"dict", "cells", "none", "rows"}

(* C05: at termination every consumer holds what the sequential run holds *)
ScheduleIndependent ==
    Done => \A c \in Consumers : Result(c, out) = Result(c, InOrder)

ExactlyOnce ==
    Done => /\ Len(out) = NT
            /\ \A t \in 1..NT : \E k \in 1..NT : out[k] = t

(* the pool's dispatch rule: the k-th arrival is one of the first W+k-1 tasks *)
FeasibleOrder == \A k \in 1..Len(out) : out[k] <= W + k - 1

OneWorkerIsSequential == (W = 1 /\ Done) => out = InOrder

TypeOK == /\ W \in 1..MaxW /\ NT \in 0..MaxNT /\ next \in 1..(NT + 1)
          /\ running \in [1..W -> 0..NT]
          /\ Len(out) <= NT

Termination == <>Done

(* terminal states are printed for the replay driver *)
PrintDone == Done => PrintT(<<"done", W, NT, out>>)
=============================================================================
