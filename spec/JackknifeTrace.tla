--------------------------- MODULE JackknifeTrace ---------------------------
(***************************************************************************)
(* code -> spec for C03: pair counts MEASURED by the real library          *)
(* (crosscorrelate / autocorrelate on real catalogs with integer weights)  *)
(* are loaded as the workspace of Jackknife; the specification runs        *)
(* sample_patch_sum of every member on them.  A trace is accepted iff      *)
(*   Impl  the results of the specification's program equal the recorded   *)
(*         results of the real PatchedCounts / PatchedSumWeights           *)
(*         .sample_patch_sum() (data and every jackknife row), and         *)
(*   Prop  the specification's from-scratch statistic without patch k      *)
(*         (CntOf / Norm2Of over Patches \ {k}) equals the totals the real *)
(*         library measured on catalogs from which patch k was physically  *)
(*         removed (all catalogs re-created without its records), and      *)
(*   Full  (precondition of Prop) the from-scratch statistic over ALL       *)
(*         patches equals the recorded totals of the full measurement -    *)
(*         otherwise the code's statistic is not the model's (drift), and  *)
(*   Spec  JackknifeIsLeaveOneOut holds on this data.                      *)
(* All recorded numbers are doubled (halved auto diagonal) integers.       *)
(* One record per line of IOEnv.TRACE_FILE:                                *)
(*   cnt[f][m][b][i][j]  2 * counts          wt[f][role][b][i]             *)
(*   sps[f][m].counts / .sumw = [data[b], samples[k][b]]   (2 * value)     *)
(*   red[f][m] = [cnt[k][b], norm[k][b]]     (2 * value, re-measured)      *)
(*   full[f][m] = [cnt[b], norm[b]]          (2 * value, full measurement) *)
(***************************************************************************)
EXTENDS Jackknife, Json, IOUtils, TLCExt

Traces == ndJsonDeserialize(IOEnv.TRACE_FILE)

VARIABLE tid
tvars == <<vars, tid>>
T == Traces[tid]

FuncOrder == <<"cross", "ref", "unk", "x">>
RECURSIVE MemProg(_, _)
MemProg(f, n) == IF n > 4 THEN <<>>
                 ELSE (IF MemberOrder[n] \in FMembers[f]
                       THEN << <<"counts", f, MemberOrder[n]>>, <<"sumw", f, MemberOrder[n]>> >> ELSE <<>>)
                      \o MemProg(f, n + 1)
RECURSIVE AllProg(_)
AllProg(n) == IF n > 4 THEN <<>>
              ELSE (IF FuncOrder[n] \in Funcs THEN MemProg(FuncOrder[n], 1) ELSE <<>>) \o AllProg(n + 1)
TProg == AllProg(1)

TInit ==
    /\ tid \in 1..Len(Traces)
    /\ store = [cnt |-> [o \in Objs |-> Traces[tid].cnt[o[1]][o[2]]],
                wt |-> [k \in WKeys |-> Traces[tid].wt[k[1]][k[2]]],
                hst |-> <<>>]
    /\ orig = store
    /\ hist = <<>> /\ results = <<>> /\ work = <<>> /\ pc = "idle"
    /\ tmp = NoTmp /\ parts = <<>> /\ h = NoPool

TStart == pc = "idle" /\ Len(hist) < Len(TProg) /\ StartOp(TProg[Len(hist) + 1]) /\ UNCHANGED tid
TStep == (GetArray \/ SumPatches \/ RowSum \/ ColSum \/ Diag \/ Combine \/ FinishOp) /\ UNCHANGED tid
TDone == pc = "idle" /\ Len(hist) = Len(TProg)
TNext == TStart \/ TStep \/ (TDone /\ UNCHANGED tvars)
TSpec == TInit /\ [][TNext]_tvars

Scale(op) == IF op[1] = "counts" THEN 1 ELSE 2
Impl == \A n \in 1..Len(hist) :
           LET op == hist[n]
               rec == T.sps[op[2]][op[3]][op[1]]
           IN /\ \A b \in Bins : results[n].data[b] = Q(rec.data[b], Scale(op))
              /\ \A k \in Patches, b \in Bins : results[n].samples[k][b] = Q(rec.samples[k][b], Scale(op))
Prop == \A o \in Objs : \A k \in Patches, b \in Bins :
           /\ CntOf(o, b, Patches \ {k}) = T.red[o[1]][o[2]].cnt[k][b]
           /\ Norm2Of(o, b, Patches \ {k}) = T.red[o[1]][o[2]].norm[k][b]

Full == \A o \in Objs : \A b \in Bins :
           /\ CntOf(o, b, Patches) = T.full[o[1]][o[2]].cnt[b]
           /\ Norm2Of(o, b, Patches) = T.full[o[1]][o[2]].norm[b]

Verdict == TDone => PrintT(<<"verdict", tid, Impl, Prop, JackknifeIsLeaveOneOut /\ FrameUnchanged, Full>>)
=============================================================================
