#!/bin/sh
# Offline setup: parse every specification with SANY (nothing is fetched, nothing under /tmp is kept).
cd "$(dirname "$0")" || exit 2
rc=0
for f in spec/*.tla; do
  out=$(cd spec && java -cp /opt/veriftools/tla/tla2tools.jar:/opt/veriftools/tla/CommunityModules-deps.jar tla2sany.SANY "$(basename "$f")" 2>&1)
  if echo "$out" | grep -q -E "Fatal errors|\*\*\* Errors|Could not parse|Abort"; then
    echo "SANY FAILED: $f"; echo "$out" | tail -20; rc=1
  else
    echo "SANY ok: $f"
  fi
done
/venv/bin/python -c "import sys; sys.path.insert(0,'/repo/src'); import yaw, hypothesis" || rc=1
exit $rc
